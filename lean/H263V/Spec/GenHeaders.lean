/-
Header cases for C06: (protocol line, expected output) pairs.  Exhaustive per field, random across fields.
-/
import H263V.Spec.HeaderSpec
import H263V.Spec.GenPic
import H263V.Model.Show
namespace H263V.Spec.GenHeaders
open H263V H263V.Util H263V.Spec.Syntax H263V.Spec.GenPic H263V.Spec.HeaderSpec

/-- the header bits followed by `tail` random bits, padded to a byte boundary: hex and the exact header length -/
def pack (hdr : Bits) (tail : Bits) : String × Nat :=
  (hex (bitsToBytes (padToByte (hdr ++ tail))).toArray, hdr.length)

def genTail : G Bits := do
  let n ← below 24
  (List.range n).mapM fun _ => coin 1 2

def expectOk (p : PicHdr) (used : Nat) : String := s!"H {Show.hdrS p} used={used}"

/-- expected when the header must be rejected: any error, nothing consumed -/
def expectErr : String := "H err:* used=0"

def sorCase (h : SorensonHdr) : G (String × String) := do
  let t ← genTail
  let (hx, n) := pack (encodeSorensonHdr h) t
  pure (s!"H 1 - {hx}", expectOk (sorensonPicture h) n)

def randSor : G SorensonHdr := do
  let code ← below 8
  let big ← coin 1 2
  let w ← (if code = 1 ∧ big then below 65536 else below 256)
  let hh ← (if code = 1 ∧ big then below 65536 else below 256)
  pure { version := (← below 32), tr := (← below 256), sizeCode := code, customW := w, customH := hh, picType := (← below 4),
         deblock := (← coin 1 2), quant := (← below 32), extra := (← genExtra) }

def baseCase (h : BaseHdr) : G (String × String) := do
  let t ← genTail
  let (hx, n) := pack (encodeBaseHdr h) t
  -- baseline headers are generated without the scalability option: whether ELNUM accompanies a header that has no
  -- PLUSPTYPE when scalability is negotiated is not pinned down by the property statement (the code reads it)
  let ok := h.srcFmt ≥ 1 ∧ h.srcFmt ≤ 6
  pure (s!"H 0 - {hx}", if ok then expectOk (basePicture h) n else expectErr)

def optBelow (num den n : Nat) : G (Option Nat) := do
  let c ← coin num den
  let v ← below n
  pure (if c then some v else none)

def randBase : G BaseHdr := do
  pure { tr := (← below 256), split := (← coin 1 2), docCamera := (← coin 1 2), freezeRelease := (← coin 1 2),
         srcFmt := (← range 1 6), inter := (← coin 1 2), umv := (← coin 1 2), sac := (← coin 1 2), ap := (← coin 1 2),
         pb := (← coin 1 4), quant := (← below 32), cpm := (← optBelow 1 3 4),
         trb := (← below 8), dbquant := (← below 4), extra := (← genExtra) }

/-- `prevOpts`: none = no previous header; some o = a previous header with options `o` and no format -/
def plusCase (scal : Bool) (prevOpts : Option Nat) (h : PlusHdr) : G (String × String) := do
  let t ← genTail
  let po := prevOpts.getD 0
  let rpsInForce := if h.ufep then h.rps else Opt.has (po &&& Opt.OPPTYPE_OPTIONS) Opt.REFERENCE_PICTURE_SELECTION
  let (hx, n) := pack (encodePlusHdr scal rpsInForce h) t
  let prevS := match prevOpts with | some o => s!"o{o}" | none => "-"
  -- RPRP (unimplemented) is demanded when RPR is signalled.  A header that does not restate the format (UFEP = 000), or one that
  -- follows a header without a format, does not change the format.
  let rprp := h.rpr
  let parBad := h.ufep ∧ h.srcFmt = 6 ∧ (h.par = 0 ∨ (h.par = 15 ∧ (h.eparW = 0 ∨ h.eparH = 0)))
  let ok := h.markersOk ∧ !parBad ∧ !rprp
  pure (s!"H {if scal then 2 else 0} {prevS} {hx}",
        if ok then expectOk (plusPicture scal po h) n else expectErr)

/-- a UFEP = 000 header after a real previous header (given in hex, parsed first): the format is not restated and the
OPPTYPE-class modes of the previous header stay in force -/
def plusAfterCase (scal : Bool) (hprev h : PlusHdr) : G (String × String) := do
  let t ← genTail
  let pp := plusPicture scal 0 hprev
  let rpsInForce := Opt.has (pp.options &&& Opt.OPPTYPE_OPTIONS) Opt.REFERENCE_PICTURE_SELECTION
  let (phx, _) := pack (encodePlusHdr scal hprev.rps hprev) []
  let (hx, n) := pack (encodePlusHdr scal rpsInForce h) t
  pure (s!"H {if scal then 2 else 0} {phx} {hx}", expectOk (plusPicture scal pp.options h) n)

def randPlus (ufep : Bool) : G PlusHdr := do
  let custom ← coin 2 3
  let sf ← below 8
  pure { tr := (← below 256), split := (← coin 1 2), docCamera := (← coin 1 2), freezeRelease := (← coin 1 2), ufep := ufep,
         srcFmt := (if custom then 6 else sf), customPcf := (← coin 1 3), umv := (← coin 1 3), sac := (← coin 1 4),
         ap := (← coin 1 4), aic := (← coin 1 4), df := (← coin 1 4), ss := (← coin 1 4), rps := (← coin 1 4), isd := (← coin 1 4),
         aiv := (← coin 1 4), mq := (← coin 1 4), picType := (← below 8), rpr := (← coin 1 12), rru := (← coin 1 3),
         rtype := (← coin 1 2), cpm := (← optBelow 1 3 4), par := (← pick [1, 2, 3, 4, 5, 6, 14, 15, 15, 1]),
         pwi := (← below 512), phi := (← below 512), eparW := (← range 1 255), eparH := (← range 1 255), cpcfc := (← below 256),
         etr := (← below 4), uuiUnlimited := (← coin 1 2), sssRect := (← coin 1 2), sssArb := (← coin 1 2), elnum := (← below 16),
         rlnum := (← below 16), rpsmf := (← below 8), trp := (← optBelow 1 2 1024),
         quant := (← below 32), trb := (← below 8), dbquant := (← below 4), extra := (← genExtra) }

def allCases (thorough : Bool) : G (List (String × String)) := do
  let mut out : List (String × String) := []
  -- Sorenson: exhaustive per field
  for v in [0:32] do
    out := (← sorCase { (← randSor) with version := v }) :: out
  for t in [0:256] do
    out := (← sorCase { (← randSor) with tr := t }) :: out
  for code in [0:8] do
    for (w, h) in [(0, 0), (1, 1), (255, 255), (128, 7), (256, 256), (65535, 65535), (1, 65535), (320, 240)] do
      for pt in [0:4] do
        out := (← sorCase { (← randSor) with sizeCode := code, customW := (if code = 0 then w % 256 else w), customH := (if code = 0 then h % 256 else h), picType := pt }) :: out
  for q in [0:32] do
    for db in [true, false] do
      out := (← sorCase { (← randSor) with quant := q, deblock := db }) :: out
  -- baseline: all 32 PTYPE low-bit patterns x source formats x the three high flags
  for low in [0:32] do
    for sf in [0:8] do
      let b ← randBase
      let h : BaseHdr := { b with srcFmt := sf, inter := low / 16 % 2 = 1, umv := low / 8 % 2 = 1, sac := low / 4 % 2 = 1,
                                  ap := low / 2 % 2 = 1, pb := low % 2 = 1 }
      if sf ≠ 7 then out := (← baseCase h) :: out
  for t in [0:256] do
    out := (← baseCase { (← randBase) with tr := t }) :: out
  -- wrong PTYPE marker bits (bits 1-2 must be "10"): flip one of them in an otherwise valid header
  for k in [0:8] do
    let b ← randBase
    let bits := encodeBaseHdr b
    let pos := 30 + k % 2
    let bad := bits.set pos (!(bits.getD pos false))
    let (hx, _) := pack bad []
    out := (s!"H 0 - {hx}", expectErr) :: out
  -- PLUSPTYPE: all 2^10 OPPTYPE mode-bit patterns
  for m in [0:1024] do
    let p ← randPlus true
    let bit := fun (k : Nat) => m / 2 ^ k % 2 = 1
    let h : PlusHdr := { p with umv := bit 9, sac := bit 8, ap := bit 7, aic := bit 6, df := bit 5, ss := bit 4, rps := bit 3,
                                isd := bit 2, aiv := bit 1, mq := bit 0, rpr := false }
    out := (← plusCase (← coin 1 2) none h) :: out
  -- custom picture format: width / height indications (quick: a stratified grid incl. every bit of both fields; thorough: all 512 x 289)
  let pwis : List Nat := if thorough then List.range 512 else [0, 1, 2, 3, 7, 8, 15, 16, 31, 32, 63, 64, 127, 128, 255, 256, 257, 300, 383, 384, 448, 510, 511]
  let phis : List Nat := if thorough then List.range 289 else [0, 1, 2, 3, 4, 8, 16, 32, 36, 64, 72, 127, 128, 144, 200, 255, 256, 257, 288, 300, 400, 511]
  for pw in pwis do
    for ph in phis do
      let p ← randPlus true
      out := (← plusCase false none { p with srcFmt := 6, pwi := pw, phi := ph, rpr := false, par := if p.par = 0 then 1 else p.par }) :: out
  for par in [0:16] do
    for ew in [0, 1, 255] do
      let p ← randPlus true
      out := (← plusCase false none { p with srcFmt := 6, par := par, eparW := ew, rpr := false }) :: out
      out := (← plusCase false none { p with srcFmt := 6, par := par, eparH := ew, rpr := false }) :: out
  -- every other field at random, both option bits, UFEP = 000 with synthetic previous headers (inheritance)
  for _ in [0:(if thorough then 20000 else 1500)] do
    let scal ← coin 1 2
    let p ← randPlus true
    out := (← plusCase scal none p) :: out
    let p0 ← randPlus false
    let prev ← (do let c ← below 3; if c = 0 then pure none else do
      let o ← below 131072
      pure (some o) : G (Option Nat))
    out := (← plusCase scal prev p0) :: out
    out := (← sorCase (← randSor)) :: out
    out := (← baseCase (← randBase)) :: out
  -- UFEP = 000 after a parsed UFEP = 001 header: inheritance of every OPPTYPE mode bit from a real previous header
  for m in [0:(if thorough then 1024 else 256)] do
    let scal ← coin 1 2
    let p ← randPlus true
    let low ← below 4
    let mm := if thorough then m else m * 4 + low
    let bit := fun (k : Nat) => mm / 2 ^ k % 2 = 1
    let hprev : PlusHdr := { p with umv := bit 9, sac := bit 8, ap := bit 7, aic := bit 6, df := bit 5, ss := bit 4, rps := bit 3,
                                    isd := bit 2, aiv := bit 1, mq := bit 0, rpr := false, srcFmt := if p.srcFmt = 0 ∨ p.srcFmt = 7 then 3 else p.srcFmt,
                                    par := if p.par = 0 then 1 else p.par, eparW := max 1 p.eparW, eparH := max 1 p.eparH, phi := max 1 p.phi }
    let p0 ← randPlus false
    out := (← plusAfterCase scal hprev { p0 with rpr := false }) :: out
  -- fixed markers
  for _ in [0:(if thorough then 400 else 40)] do
    let p ← randPlus true
    out := (← plusCase false none { p with ufepCode := some (← range 2 7), rpr := false }) :: out
    out := (← plusCase false none { p with oppTail := (← pick [0, 1, 9, 12, 15, 7]), rpr := false }) :: out
    out := (← plusCase false none { p with mppTail := (← pick [0, 2, 3, 5, 7]), rpr := false }) :: out
    out := (← plusCase false none { p with srcFmt := 6, cpfmtMarker := false, rpr := false }) :: out
    out := (← plusCase false none { p with umv := true, uuiBad := true, rpr := false }) :: out
    out := (← plusCase false none { p with rps := true, bciBad := true, rpr := false }) :: out
  -- BCI = "1" (a back-channel message follows: not implemented): flip the first BCI bit of a valid header with reference picture
  -- selection (the header ends TRPI=0, BCI "01", PQUANT, PEI=0, so the bit sits 8 from the end)
  for _ in [0:8] do
    let p ← randPlus true
    let h : PlusHdr := { p with rps := true, rpr := false, trp := none, extra := [], picType := p.picType % 2 }
    let bits := encodePlusHdr false true h
    let pos := bits.length - 8
    let bad := bits.set pos true
    let (hx, _) := pack bad []
    out := (s!"H 0 - {hx}", expectErr) :: out
  pure out.reverse

def run (kind : String) (seed : Nat) : List String :=
  let cases := ((allCases (kind.endsWith "T")).run (seed * 2654435761 + 4242)).1
  if kind.startsWith "headersx" then cases.map (·.2) else cases.map (·.1)

end H263V.Spec.GenHeaders
