/-
Specification: the H.263 Annex A (IEEE Std 1180 style) accuracy procedure for the inverse DCT.
Real arithmetic is carried out exactly on integers scaled by S = 10^40: every cosine constant is
cos(kπ/16) rounded to 40 decimal places, sums are exact integers, so the "double precision" forward
transform and reference inverse transform of the procedure are evaluated with an error below 10^-33 —
far below double precision.  (The procedure's `double` results can differ from these only for values
within ~10^-13 of a rounding boundary; the correspondence check compares the generated blocks with an
f64 implementation.)
-/
namespace H263V.Spec.AnnexA

def S : Int := 10000000000000000000000000000000000000000

/-- cos(kπ/16) · 10^40, k = 0..8 -/
def cosK : Array Int := #[
  10000000000000000000000000000000000000000,
  9807852804032304491261822361342390369739,
  9238795325112867561281831893967882868224,
  8314696123025452370787883776179057567386,
  7071067811865475244008443621048490392848,
  5555702330196022247428308139485328743749,
  3826834323650897717284599840303988667613,
  1950903220161282678482848684770222409277,
  0]

/-- cos(nπ/16) · S for any n -/
def cosN (n : Nat) : Int :=
  let m := n % 32
  if m ≤ 8 then cosK.getD m 0
  else if m ≤ 16 then -(cosK.getD (16 - m) 0)
  else if m ≤ 24 then -(cosK.getD (m - 16) 0)
  else cosK.getD (32 - m) 0

/-- D[u][x] = (C(u)/2) cos((2x+1)uπ/16) · S, C(0) = 1/√2, C(u) = 1 otherwise -/
def dmat (u x : Nat) : Int :=
  if u = 0 then (cosK.getD 4 0) / 2 else cosN ((2 * x + 1) * u) / 2

/-- nearest integer to n/d for d > 0 (ties away from zero; ties do not occur in practice) -/
def roundDiv (n d : Int) : Int := if 0 ≤ n then (2 * n + d) / (2 * d) else -((2 * (-n) + d) / (2 * d))

def clip (lo hi x : Int) : Int := if x < lo then lo else if hi < x then hi else x

abbrev Blk := Array Int   -- 64 entries, index 8*row + col

/-- forward DCT: F = D f Dᵀ, rounded to nearest, clipped to −2048..2047.  `f[8*y+x]`, result `F[8*v+u]`. -/
def fdct (f : Blk) : Blk :=
  -- t[y][u] = Σ_x D[u][x] f[y][x]
  let t : Array Int := Array.ofFn (n := 64) fun i =>
    let y := i.val / 8; let u := i.val % 8
    (List.range 8).foldl (fun a x => a + dmat u x * f.getD (8 * y + x) 0) 0
  Array.ofFn (n := 64) fun i =>
    let v := i.val / 8; let u := i.val % 8
    let s := (List.range 8).foldl (fun a y => a + dmat v y * t.getD (8 * y + u) 0) 0
    clip (-2048) 2047 (roundDiv s (S * S))

/-- reference inverse DCT: f = Dᵀ F D, rounded to nearest, clipped to −256..255 -/
def refIdct (F : Blk) : Blk :=
  let t : Array Int := Array.ofFn (n := 64) fun i =>
    let v := i.val / 8; let x := i.val % 8
    (List.range 8).foldl (fun a u => a + dmat u x * F.getD (8 * v + u) 0) 0
  Array.ofFn (n := 64) fun i =>
    let y := i.val / 8; let x := i.val % 8
    let s := (List.range 8).foldl (fun a v => a + dmat v y * t.getD (8 * v + x) 0) 0
    clip (-256) 255 (roundDiv s (S * S))

/-- the IEEE 1180 pseudo-random generator: `randx = randx*1103515245 + 12345` on a 32-bit long;
`i = randx & 0x7ffffffe; x = i / 0x7fffffff * (L+H+1); j = trunc(x); return j - L` -/
def randStep (randx : Nat) : Nat := (randx * 1103515245 + 12345) % 4294967296

def randVal (randx L H : Nat) : Int :=
  let i := randx &&& 0x7ffffffe
  ((i * (L + H + 1) / 0x7fffffff : Nat) : Int) - (L : Int)

/-- one random block; returns the block and the new generator state -/
def randBlock (randx L H : Nat) (negate : Bool) : Blk × Nat := Id.run do
  let mut r := randx
  let mut b : Array Int := Array.mkEmpty 64
  for _ in [0:64] do
    r := randStep r
    let v := randVal r L H
    b := b.push (if negate then -v else v)
  return (b, r)

/-- accumulated statistics over the blocks of one range -/
structure Stats where
  n : Nat := 0
  peak : Nat := 0
  sumErr : Array Int := Array.replicate 64 0       -- per position Σ e
  sumSq : Array Nat := Array.replicate 64 0        -- per position Σ e²

def Stats.add (s : Stats) (test ref : Blk) : Stats :=
  let e : Array Int := Array.ofFn (n := 64) fun i => test.getD i.val 0 - ref.getD i.val 0
  { n := s.n + 1,
    peak := e.foldl (fun m x => max m x.natAbs) s.peak,
    sumErr := Array.ofFn (n := 64) fun i => s.sumErr.getD i.val 0 + e.getD i.val 0,
    sumSq := Array.ofFn (n := 64) fun i => s.sumSq.getD i.val 0 + (e.getD i.val 0).natAbs ^ 2 }

/-- the five Annex A criteria: peak ≤ 1; per-position mse ≤ 0.06; overall mse ≤ 0.02; per-position mean error ≤ 0.015;
overall mean error ≤ 0.0015 (all compared exactly as integer inequalities) -/
def Stats.ok (s : Stats) : Bool :=
  let n := s.n
  decide (s.peak ≤ 1) &&
  s.sumSq.all (fun q => decide (q * 100 ≤ 6 * n)) &&
  decide (s.sumSq.foldl (· + ·) 0 * 100 ≤ 2 * (64 * n)) &&
  s.sumErr.all (fun e => decide (e.natAbs * 1000 ≤ 15 * n)) &&
  decide ((s.sumErr.foldl (· + ·) 0).natAbs * 10000 ≤ 15 * (64 * n))

/-- run the procedure over `count` blocks of range (−L, H) with the generator seed, sign optionally flipped;
`idct` is the inverse transform under test (coefficients ↦ samples clipped to −256..255) -/
def runRange (idct : Blk → Blk) (seed L H : Nat) (negate : Bool) (count : Nat) : Stats := Id.run do
  let mut r := seed
  let mut st : Stats := {}
  for _ in [0:count] do
    let (b, r') := randBlock r L H negate
    r := r'
    let coef := fdct b
    st := st.add (idct coef) (refIdct coef)
  return st

end H263V.Spec.AnnexA
