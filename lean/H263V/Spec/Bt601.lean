/-
Specification: BT.601 studio-range YCbCr -> full-range RGB, (a) evaluated in 16.16 fixed point with
round-to-nearest and clamping, as stated in property C07, and (b) the real-valued formula, represented
exactly by integer numerators over a common integer denominator.
  R = 255/219 (Y-16) + 255/224 * 1.402 (Cr-128)
  G = 255/219 (Y-16) - 255/224 * 1.402 * (0.299/0.587) (Cr-128) - 255/224 * 1.772 * (0.114/0.587) (Cb-128)
  B = 255/219 (Y-16) + 255/224 * 1.772 (Cb-128)
-/
namespace H263V.Spec.Bt601

/-- nearest integer to `num/den` for `num ≥ 0`, `den > 0` (no ties occur for the constants below) -/
def roundDiv (num den : Int) : Int := (2 * num + den) / (2 * den)

/-- the five coefficients in 16.16 fixed point -/
def cY : Int := roundDiv (255 * 65536) 219
def cRV : Int := roundDiv (255 * 1402 * 65536) (224 * 1000)
def cGV : Int := -(roundDiv (255 * 1402 * 299 * 65536) (224 * 1000 * 587))
def cGU : Int := -(roundDiv (255 * 1772 * 114 * 65536) (224 * 1000 * 587))
def cBU : Int := roundDiv (255 * 1772 * 65536) (224 * 1000)

def clamp255 (x : Int) : Int := if x < 0 then 0 else if 255 < x then 255 else x

/-- fixed-point value before clamping: floor((sum + 0.5 * 2^16) / 2^16), i.e. round to nearest -/
def rawR (y cr : Int) : Int := (cY * (y - 16) + cRV * (cr - 128) + 32768) / 65536
def rawG (y cb cr : Int) : Int := (cY * (y - 16) + cGV * (cr - 128) + cGU * (cb - 128) + 32768) / 65536
def rawB (y cb : Int) : Int := (cY * (y - 16) + cBU * (cb - 128) + 32768) / 65536

/-- The converted pixel (R, G, B, A). -/
def pixel (y cb cr : Int) : Int × Int × Int × Int :=
  (clamp255 (rawR y cr), clamp255 (rawG y cb cr), clamp255 (rawB y cb), 255)

/-! Real-valued formula: value = num / den with the denominators below. -/
def denRB : Int := 219 * 224 * 1000
def denG : Int := 219 * 224 * 1000 * 587
def realRNum (y cr : Int) : Int := 255 * (224 * 1000) * (y - 16) + 255 * 1402 * 219 * (cr - 128)
def realBNum (y cb : Int) : Int := 255 * (224 * 1000) * (y - 16) + 255 * 1772 * 219 * (cb - 128)
def realGNum (y cb cr : Int) : Int :=
  255 * (224 * 1000 * 587) * (y - 16) - 255 * 1402 * 299 * 219 * (cr - 128) - 255 * 1772 * 114 * 219 * (cb - 128)

end H263V.Spec.Bt601
