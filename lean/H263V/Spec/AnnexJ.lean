/-
Specification: the H.263 Annex J deblocking edge filter, as stated in property C09, and
Table J.2.  Independent of the model: plain integer formulas, divisions truncating toward zero.
-/
namespace H263V.Spec.AnnexJ

/-- integer division truncating toward zero, for a positive divisor -/
def tdiv (x k : Int) : Int := if 0 ≤ x then x / k else -((-x) / k)

def sign (x : Int) : Int := if 0 < x then 1 else if x < 0 then -1 else 0
def abs (x : Int) : Int := if x < 0 then -x else x
def clip (x lo hi : Int) : Int := if x < lo then lo else if hi < x then hi else x

/-- Figure J.2: d1 = SIGN(d) * MAX(0, |d| - MAX(0, 2 * (|d| - STRENGTH))) -/
def upDownRamp (d s : Int) : Int :=
  sign d * max 0 (abs d - max 0 (2 * (abs d - s)))

/-- The Annex J filter on the four samples A B | C D straddling a block edge. -/
def filter (s a b c d : Int) : Int × Int × Int × Int :=
  let dd := tdiv (a - 4 * b + 4 * c - d) 8
  let d1 := upDownRamp dd s
  let d2 := clip (tdiv (a - d) 4) (-(abs (tdiv d1 2))) (abs (tdiv d1 2))
  (a - d2, clip (b + d1) 0 255, clip (c - d1) 0 255, d + d2)

/-- Table J.2/H.263: STRENGTH as a function of QUANT (index 0 unused). -/
def tableJ2 : List Nat :=
  [0, 1, 1, 2, 2, 3, 3, 4, 4, 4, 5, 5, 6, 6, 7, 7, 7, 8, 8, 8, 9, 9, 9, 10, 10, 10, 11, 11, 11, 12, 12, 12]

end H263V.Spec.AnnexJ

namespace H263V.Spec.AnnexJ

/-- The 8-aligned interior block edge whose four straddling samples include coordinate `y`
(along an axis of length `n`), if those four samples `e-2 .. e+1` all lie inside the image. -/
def edgeOf (y n : Nat) : Option Nat :=
  let e := (y + 2) / 8 * 8
  if 8 ≤ e ∧ y ≤ e + 1 ∧ e + 2 ≤ n then some e else none

def pick (r : Int × Int × Int × Int) (k : Nat) : Int :=
  match k with
  | 0 => r.1
  | 1 => r.2.1
  | 2 => r.2.2.1
  | _ => r.2.2.2

/-- sample of a `w`-wide image, 0 outside -/
def px (img : Array Nat) (w x y : Nat) : Int := (img.getD (y * w + x) 0 : Nat)

/-- Filtering across every horizontal block edge, defined pointwise. -/
def horizPass (img : Array Nat) (w s : Nat) : Array Nat :=
  let h := img.size / w
  Array.ofFn (n := img.size) fun i =>
    let x := i.val % w
    let y := i.val / w
    match edgeOf y h with
    | some e => (pick (filter s (px img w x (e - 2)) (px img w x (e - 1)) (px img w x e) (px img w x (e + 1))) (y - (e - 2))).toNat
    | none => img.getD i.val 0

/-- Filtering across every vertical block edge, defined pointwise. -/
def vertPass (img : Array Nat) (w s : Nat) : Array Nat :=
  Array.ofFn (n := img.size) fun i =>
    let x := i.val % w
    let y := i.val / w
    match edgeOf x w with
    | some e => (pick (filter s (px img w (e - 2) y) (px img w (e - 1) y) (px img w e y) (px img w (e + 1) y)) (x - (e - 2))).toNat
    | none => img.getD i.val 0

/-- Annex J post-filter: horizontal edges first, then vertical edges. -/
def deblock (img : Array Nat) (w s : Nat) : Array Nat :=
  vertPass (horizPass img w s) w s

end H263V.Spec.AnnexJ
