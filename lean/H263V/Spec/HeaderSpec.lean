/-
Specification: the picture header a parser must report for each header description (C06) — field for
field per H.263 §5.1 and the Sorenson Spark layout, including inheritance of the optional modes of the
previous header when OPPTYPE is not retransmitted (UFEP = 000).
-/
import H263V.Spec.Syntax
import H263V.Model.Types
namespace H263V.Spec.HeaderSpec
open H263V H263V.Spec.Syntax

def flag (b : Bool) (v : Nat) : Nat := if b then v else 0

def stdFmt : Nat → SrcFmt
  | 1 => .subQcif | 2 => .quarterCif | 3 => .fullCif | 4 => .fourCif | 5 => .sixteenCif | _ => .reserved

def sorensonFmt (h : SorensonHdr) : SrcFmt :=
  match h.sizeCode with
  | 0 => .extended .square h.customW h.customH
  | 1 => .extended .square h.customW h.customH
  | 2 => .fullCif
  | 3 => .quarterCif
  | 4 => .subQcif
  | 5 => .extended .square 320 240
  | 6 => .extended .square 160 120
  | _ => .reserved

def sorensonPicture (h : SorensonHdr) : PicHdr :=
  { version := some h.version, tr := h.tr, format := some (sorensonFmt h), options := flag h.deblock Opt.USE_DEBLOCKER,
    hasPlusptype := false, hasOpptype := false,
    picType := (match h.picType with | 0 => .iFrame | 1 => .pFrame | 2 => .disposableP | r => .reserved r),
    mvRange := some .unlimited, sliceSubmode := none, layer := none, rpsMode := none, predictionRef := none,
    quantizer := h.quant, multiplex := none, pbReference := none, pbQuantizer := none, extra := h.extra }

def bquant : Nat → BQuant
  | 0 => .five | 1 => .six | 2 => .seven | _ => .eight

def basePicture (h : BaseHdr) : PicHdr :=
  { version := none, tr := h.tr, format := some (stdFmt h.srcFmt),
    options := flag h.split Opt.USE_SPLIT_SCREEN + flag h.docCamera Opt.USE_DOCUMENT_CAMERA +
      flag h.freezeRelease Opt.RELEASE_FULL_PICTURE_FREEZE + flag h.umv Opt.UNRESTRICTED_MOTION_VECTORS +
      flag h.sac Opt.SYNTAX_BASED_ARITHMETIC_CODING + flag h.ap Opt.ADVANCED_PREDICTION,
    hasPlusptype := false, hasOpptype := false,
    picType := if h.pb then .pbFrame else if h.inter then .pFrame else .iFrame,
    mvRange := none, sliceSubmode := none, layer := none, rpsMode := none, predictionRef := none,
    quantizer := h.quant, multiplex := h.cpm, pbReference := if h.pb then some h.trb else none,
    pbQuantizer := if h.pb then some (bquant h.dbquant) else none, extra := h.extra }

def parOf (h : PlusHdr) : Par :=
  match h.par with
  | 1 => .square | 2 => .par12_11 | 3 => .par10_11 | 4 => .par16_11 | 5 => .par40_33
  | 15 => .extended h.eparW h.eparH
  | r => .reserved r

/-- the OPPTYPE mode bits as picture options -/
def oppOptions (h : PlusHdr) : Nat :=
  flag h.umv Opt.UNRESTRICTED_MOTION_VECTORS + flag h.sac Opt.SYNTAX_BASED_ARITHMETIC_CODING +
  flag h.ap Opt.ADVANCED_PREDICTION + flag h.aic Opt.ADVANCED_INTRA_CODING + flag h.df Opt.DEBLOCKING_FILTER +
  flag h.ss Opt.SLICE_STRUCTURED + flag h.rps Opt.REFERENCE_PICTURE_SELECTION +
  flag h.isd Opt.INDEPENDENT_SEGMENT_DECODING + flag h.aiv Opt.ALTERNATIVE_INTER_VLC + flag h.mq Opt.MODIFIED_QUANTIZATION

/-- `scal`: scalability negotiated; `prevOptions`: options of the previous header (0 when there is none) -/
def plusPicture (scal : Bool) (prevOptions : Nat) (h : PlusHdr) : PicHdr :=
  let opp := if h.ufep then oppOptions h else prevOptions &&& Opt.OPPTYPE_OPTIONS
  { version := none,
    tr := if h.ufep ∧ h.customPcf then h.etr * 256 + h.tr else h.tr,
    format := if h.ufep then (if h.srcFmt = 6 then some (.extended (parOf h) ((h.pwi + 1) * 4) (h.phi * 4))
                              else if h.srcFmt = 0 ∨ h.srcFmt = 7 then some .reserved else some (stdFmt h.srcFmt)) else none,
    options := flag h.split Opt.USE_SPLIT_SCREEN + flag h.docCamera Opt.USE_DOCUMENT_CAMERA +
      flag h.freezeRelease Opt.RELEASE_FULL_PICTURE_FREEZE + opp +
      flag h.rpr Opt.REFERENCE_PICTURE_RESAMPLING + flag h.rru Opt.REDUCED_RESOLUTION_UPDATE + flag h.rtype Opt.ROUNDING_TYPE_ONE,
    hasPlusptype := true, hasOpptype := h.ufep,
    picType := (match h.picType with | 0 => .iFrame | 1 => .pFrame | 2 => .improvedPb | 3 => .bFrame | 4 => .eiFrame
                                     | 5 => .epFrame | r => .reserved r),
    mvRange := if h.ufep ∧ h.umv then some (if h.uuiUnlimited then .unlimited else .extended) else none,
    sliceSubmode := if h.ufep ∧ h.ss then some (flag h.sssRect 1 + flag h.sssArb 2) else none,
    layer := if scal then some (h.elnum, if h.ufep then some h.rlnum else none) else none,
    rpsMode := if h.ufep ∧ h.rps then
        some (flag (h.rpsmf / 4 % 2 = 0) 1 + flag (h.rpsmf / 2 % 2 = 1) 2 + flag (h.rpsmf % 2 = 1) 4) else none,
    predictionRef := if Opt.has opp Opt.REFERENCE_PICTURE_SELECTION then h.trp else none,
    quantizer := h.quant, multiplex := h.cpm,
    pbReference := if h.picType = 2 then some h.trb else none,
    pbQuantizer := if h.picType = 2 then some (bquant h.dbquant) else none, extra := h.extra }

end H263V.Spec.HeaderSpec
