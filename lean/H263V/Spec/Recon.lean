/-
Specification: reconstruction rules quoted in properties C11 and C12 — dequantisation, INTRADC,
DQUANT update, zig-zag scan, motion vector wrap-around, chroma vector rounding (Table 16 of §6.1.2... the
"sixteenth position" table), median.
-/
namespace H263V.Spec.Recon

def sign (x : Int) : Int := if 0 < x then 1 else if x < 0 then -1 else 0
def clamp (lo hi x : Int) : Int := if x < lo then lo else if hi < x then hi else x

/-- |REC| = QUANT·(2·|LEVEL|+1) − [QUANT even], sign restored, saturated to −2048..2047 -/
def dequant (q : Nat) (level : Int) : Int :=
  clamp (-2048) 2047 (sign level * ((q : Int) * (2 * (level.natAbs : Int) + 1) - (if q % 2 = 0 then 1 else 0)))

/-- Table 15: INTRADC code ↦ reconstruction level -/
def intraDc (code : Nat) : Option Int :=
  if code = 0 ∨ code = 128 then none else if code = 255 then some 1024 else some (8 * (code : Int))

/-- QUANT after a DQUANT, clipped to 1..31 -/
def quantAfter (q : Nat) (d : Int) : Int := clamp 1 31 ((q : Int) + d)

/-- classical 8x8 zig-zag scan: the (x, y) = (column, row) of scan position k -/
def zigzagStep (p : Nat × Nat) : Nat × Nat :=
  let (x, y) := p
  if (x + y) % 2 = 0 then           -- moving up-right
    if x = 7 then (x, y + 1) else if y = 0 then (x + 1, y) else (x + 1, y - 1)
  else                               -- moving down-left
    if y = 7 then (x + 1, y) else if x = 0 then (x, y + 1) else (x - 1, y + 1)

def zigzag : Nat → Nat × Nat
  | 0 => (0, 0)
  | k + 1 => zigzagStep (zigzag k)

/-- vector component = predictor + differential reduced modulo 64 half samples into −32..31 (−16..15.5 samples) -/
def wrapVector (p d : Int) : Int := (p + d + 32) % 64 - 32

/-- sixteenth-sample position ↦ half-sample units: 0,1,2 → 0; 3..13 → 1; 14,15 → 2 -/
def tab16 (f : Nat) : Int := if f ≤ 2 then 0 else if f ≤ 13 then 1 else 2

/-- chroma vector component from the sum `s` of the four luma components (half-sample units):
sum/8 samples = sum/16 in chroma half-sample... i.e. sign(s) · (2·⌊|s|/16⌋ + tab16(|s| mod 16)) -/
def chromaVector (s : Int) : Int := sign s * (2 * ((s.natAbs / 16 : Nat) : Int) + tab16 (s.natAbs % 16))

/-- median of three -/
def median (a b c : Int) : Int := max (min a b) (min (max a b) c)

end H263V.Spec.Recon
