/-
Case generators for the driver's `GEN` command: whole protocol lines built from generated picture
descriptions through the specification encoder.  One PRNG state per command.
-/
import H263V.Spec.GenPic
import H263V.Model.Util
import H263V.Spec.AnnexA
namespace H263V.Spec.GenCases
open H263V H263V.Util H263V.Spec.Syntax H263V.Spec.GenPic

def hexOf (p : PicD) : String := hex (encodePic p).toArray

def optsOf (cfg : Cfg) (scal : Bool) : Nat := (if cfg.flavour < 2 then 1 else 0) + (if scal then 2 else 0)

def genCfg : G Cfg := do
  let f ← pick [0, 0, 1, 1, 1, 2, 3, 3]
  pure { flavour := f }

/-- one intra picture -/
def genIntraCase : G String := do
  let cfg ← genCfg
  let dims ← genDims
  let tr ← below 256
  let p ← genPic cfg 0 dims tr
  pure s!"P {optsOf cfg false} d:{hexOf p}"

/-- an intra picture followed by 1..3 predicted pictures of the same size -/
def genInterCase : G String := do
  let cfg ← genCfg
  let dims ← genDims
  let tr ← below 256
  let i ← genPic cfg 0 dims tr
  let i := { i with mbs := i.mbs }   -- may be truncated: then it fails, which is itself a case
  let n ← range 1 3
  let ps ← (List.range n).mapM fun k => do
    let disp ← coin 1 5
    genPic cfg (if disp ∧ cfg.flavour < 2 then 2 else 1) dims (tr + k + 1)
  pure (s!"P {optsOf cfg false} d:{hexOf i}" ++ String.join (ps.map fun p => s!";d:{hexOf p}"))

/-- pictures of the sizes video actually uses (QCIF, CIF, 320x240): an intra picture followed by a predicted one -/
def genRealSizeCase : G String := do
  let cfg ← genCfg
  let dims ← pick [(176, 144), (352, 288), (320, 240), (160, 120), (128, 96)]
  let dims := if cfg.flavour = 2 then (128, 96) else dims
  let tr ← below 256
  let i ← genPic cfg 0 dims tr true
  let p ← genPic cfg 1 dims (tr + 1) true
  pure s!"P {optsOf cfg false} d:{hexOf i};d:{hexOf p}"

/-- histories over {I, P, disposable P, rejected picture, clean-up} with colliding temporal references, small pictures -/
def genHistCase : G String := do
  let cfg : Cfg := { flavour := (← pick [0, 1, 1]) }
  let w ← range 1 3
  let h ← range 1 2
  let dims := (w * 16, h * 16)
  let len ← range 2 9
  let baseTr ← below 256
  let ops ← (List.range len).mapM fun k => do
    let c ← below 20
    let trc ← below 4
    let tr := if trc = 0 then baseTr else if trc = 1 then baseTr + 1 else if trc = 2 then (baseTr + 128) % 256 else baseTr + k
    if k = 0 ∨ c < 3 then do
      let p ← genPic cfg 0 dims tr
      pure s!"d:{hexOf p}"
    else if c < 9 then do
      let p ← genPic cfg 1 dims tr
      pure s!"d:{hexOf p}"
    else if c < 14 then do
      let p ← genPic cfg 2 dims tr
      pure s!"d:{hexOf p}"
    else if c < 16 then pure "c"
    else if c < 18 then do
      -- a rejected picture: a valid picture with a forbidden INTRADC code planted, or cut short inside block data
      let p ← genPic cfg (← pick [0, 1]) dims tr
      let bytes := encodePic p
      let cut ← range 4 (max 5 (bytes.length - 1))
      pure s!"d:{hex (bytes.take cut).toArray}"
    else do
      let p ← genPic cfg 0 (dims.1 + 16, dims.2) tr   -- a size change
      pure s!"d:{hexOf p}"
  pure (s!"P {optsOf cfg false} " ++ ";".intercalate ops)

/-- N pictures concatenated in one reader (each padded to a byte boundary) and, as a second line, one reader per picture -/
def genConcatCase : G (List String) := do
  let cfg ← genCfg
  let w ← range 1 3
  let h ← range 1 3
  let dw ← below 3
  let dh ← below 3
  let dims := if cfg.flavour = 2 then (128, 96) else (w * 16 - dw, h * 16 - dh)
  let n ← range 2 4
  let tr ← below 256
  let pics ← (List.range n).mapM fun k => do
    let c ← below 5
    genPic cfg (if k = 0 then 0 else if c = 0 then 0 else if c = 1 ∧ cfg.flavour < 2 then 2 else 1) dims (tr + k) true
  -- complete pictures (every macroblock present), except that in standard mode a predicted picture may stop early: the next
  -- picture's start code (a GOB number of zero) ends it, the missing macroblocks are not coded
  let pics ← pics.mapM fun p => do
    let short ← coin 1 3
    let keep ← below (max 1 p.mbs.length)
    pure (if cfg.flavour ≥ 2 ∧ short ∧ !p.hdr.intra then { p with mbs := p.mbs.take keep } else p)
  let all := String.join (pics.map fun p => (hexOf p))
  let o := optsOf cfg false
  pure [s!"P {o} a:{all};" ++ ";".intercalate (pics.map fun _ => "n"),
        s!"P {o} " ++ ";".intercalate (pics.map fun p => s!"r:{hexOf p}")]

/-- a picture of more than 64 KiB followed by further pictures in the same reader (and, second line, one reader per picture):
a small picture whose header carries some 60,000 extra-information bytes (9 bits each); ending at different bit phases -/
def bigConcatCases (count : Nat) : G (List String) := do
  let mut out : List String := []
  for k in [0:count] do
    let v := k % 2
    let q ← range 2 20
    let nextra ← range 59000 64000
    let big ← genPic { flavour := v } 0 (32 + 16 * (k % 3), 16) k true
    let big : PicD := match big.hdr with
      | .sorenson h => { big with hdr := .sorenson { h with quant := q, extra := (List.range nextra).map fun i => (i * 7 + k) % 256 } }
      | _ => big
    let small ← genPic { flavour := v } 1 (32 + 16 * (k % 3), 16) (k + 1) true
    let small2 ← genPic { flavour := v } 1 (32 + 16 * (k % 3), 16) (k + 2) true
    let pics := [big, small, small2]
    let all := String.join (pics.map fun p => hexOf p)
    out := (s!"P 1 " ++ ";".intercalate (pics.map fun p => s!"r:{hexOf p}")) ::
           (s!"P 1 a:{all};" ++ ";".intercalate (pics.map fun _ => "n")) :: out
  pure out.reverse

/-- all 31 x 4 quantizer updates: 16x16 Sorenson I pictures whose single INTRA+Q macroblock carries one level-5
coefficient in block Y1 and a second macroblock-free tail (the observation route of C11) -/
def dquantCases : List String :=
  (List.range 31).flatMap fun q0 => [(-2 : Int), -1, 1, 2].flatMap fun dq => [0, 1].map fun v =>
    let blk : BlockD := { dc := some 100, events := [{ run := 0, level := 5, form := if v = 0 then .esc8 else .esc7 }] }
    let blank : BlockD := { dc := some 128 |>.map (fun _ => 64), events := [] }
    let mb : MbD := { stuffing := 0, kind := .coded .intraQ dq (0, 0) ((0, 0), (0, 0), (0, 0)) [blk, blank, blank, blank, blank, blank] }
    let p : PicD := { hdr := .sorenson { version := v, tr := q0, sizeCode := 0, customW := 16, customH := 16, picType := 0,
                                         deblock := false, quant := q0 + 1, extra := [] }, mbs := [mb] }
    s!"P 1 d:{hexOf p}"

/-- DQUANT chains: three INTRA+Q macroblocks in a row, every sequence of three DQUANT values from picture quantizers at both
ends of the range — the quantizer carried from macroblock to macroblock is the CLAMPED one (saturate, then come back) -/
def dquantChainCases : List String :=
  [1, 2, 3, 4, 28, 29, 30, 31].flatMap fun q0 => [(-2 : Int), -1, 1, 2].flatMap fun d1 => [(-2 : Int), -1, 1, 2].flatMap fun d2 =>
    [(-2 : Int), -1, 1, 2].map fun d3 =>
      let blk : BlockD := { dc := some 100, events := [{ run := 0, level := 5, form := .esc7 }, { run := 3, level := -9, form := .esc7 }] }
      let blank : BlockD := { dc := some 64, events := [] }
      let mb (dq : Int) : MbD := { stuffing := 0, kind := .coded .intraQ dq (0, 0) ((0, 0), (0, 0), (0, 0)) [blk, blank, blank, blk, blank, blk] }
      let p : PicD := { hdr := .sorenson { version := 1, tr := q0, sizeCode := 0, customW := 48, customH := 16, picType := 0,
                                           deblock := false, quant := q0, extra := [] }, mbs := [mb d1, mb d2, mb d3] }
      s!"P 1 d:{hexOf p}"

/-- Annex A coefficient blocks of range index `k` (0..5: (256,255), (5,5), (300,300) and their negations), generator seed
`seed`: for every block two T lines (prediction 0 and 255, so that the signed residual is observable) -/
def annexACases (k seed count : Nat) : List String := Id.run do
  let (L, H) := match k % 3 with | 0 => (256, 255) | 1 => (5, 5) | _ => (300, 300)
  let neg := k ≥ 3
  let mut r := seed
  let mut out : List String := []
  for _ in [0:count] do
    let (b, r') := Spec.AnnexA.randBlock r L H neg
    r := r'
    let coef := Spec.AnnexA.fdct b
    let body := "F:" ++ ",".intercalate (coef.toList.map toString)
    out := s!"T 1 8 64 255 {body}" :: s!"T 1 8 64 0 {body}" :: out
  return out.reverse

/-- complete intra pictures of every size 1..W x 1..H (Sorenson, custom size), random quantizer: PP lines -/
def sizeCases (W H : Nat) : G (List String) := do
  let mut out : List String := []
  for w in [1:W+1] do
    for h in [1:H+1] do
      let v ← below 2
      let p ← genPic { flavour := v } 0 (w, h) (w + h) true
      out := s!"PP 1 {hexOf p}" :: out
  pure out.reverse

/-- every escape form at the ends of its level range (and just inside), both signs, three quantizers: one-macroblock intra pictures
whose first block carries the event at zig-zag position 1 and the last block at position 63 -/
def escLevelCases : List String := Id.run do
  let mut out : List String := []
  for (fl, form, levels) in [((0 : Nat), Form.esc8, [(127 : Int), 126, 100, 2, 1]), (2, Form.esc8, [127, 126, 100, 2, 1]),
                             (1, Form.esc7, [63, 62, 33, 2, 1]), (1, Form.esc11, [1023, 1022, 529, 528, 128, 64, 1])] do
    for lvl in levels do
      for sign in [(1 : Int), -1] do
        for q in [1, 8, 23, 31] do
          let e : Event := { run := 0, level := sign * lvl, form := form }
          let e63 : Event := { run := 62, level := sign * lvl, form := form }
          let b0 : BlockD := { dc := some 100, events := [e] }
          let b5 : BlockD := { dc := some 60, events := [e63] }
          let bz : BlockD := { dc := some 128 |>.map (fun _ => 77) }
          let mb : MbD := { stuffing := 0, kind := .coded .intra 0 (0, 0) ((0, 0), (0, 0), (0, 0)) [b0, bz, bz, bz, bz, b5] }
          let hdr : HdrD := if fl = 2 then .base { tr := 1, srcFmt := 1, inter := false, quant := q, cpm := none, extra := [] }
            else .sorenson { version := fl, tr := 1, sizeCode := 0, customW := 16, customH := 16, picType := 0, deblock := false,
                             quant := q, extra := [] }
          -- the baseline sub-QCIF picture has 48 macroblocks: the first one carries the events, the others are plain
          let plain : MbD := { stuffing := 0, kind := .coded .intra 0 (0, 0) ((0, 0), (0, 0), (0, 0)) [bz, bz, bz, bz, bz, bz] }
          let mbs := if fl = 2 then mb :: List.replicate 47 plain else [mb]
          out := s!"P {if fl < 2 then 1 else 0} d:{hexOf { hdr := hdr, mbs := mbs }}" :: out
  return out.reverse

/-- INTER blocks that code ALL 64 zig-zag positions (64 events with run 0; an INTER block has no INTRADC), and INTRA blocks with
all 63 AC positions: an I picture and a P picture of one macroblock whose six blocks are full; Sorenson v0 / v1 escapes and short
codes mixed, several quantizers -/
def fullBlockCases : List String := Id.run do
  let mut out : List String := []
  for fl in [0, 1] do
    for q in [(1 : Nat), 2, 9, 16, 31] do
      for v in [(0 : Nat), 1, 2] do
        let lv (k : Nat) : Int := (if (k + v) % 2 = 0 then (1 : Int) else -1) * ((1 + ((k * 7 + v * 3 + q) % 20 : Nat) : Nat) : Int)
        let form (k : Nat) : Form := if v = 2 then .short else if fl = 0 then .esc8 else if k % 3 = 0 then .esc11 else .esc7
        let ev (k : Nat) : Event := { run := 0, level := (if v = 2 then (if k % 2 = 0 then 1 else -1) else lv k), form := form k }
        let full64 : BlockD := { dc := none, events := (List.range 64).map ev }
        let full63 : BlockD := { dc := some 90, events := (List.range 63).map ev }
        let dcOnly : BlockD := { dc := some 77 }
        let imb : MbD := { stuffing := 0, kind := .coded .intra 0 (0, 0) ((0, 0), (0, 0), (0, 0)) [full63, dcOnly, full63, dcOnly, full63, full63] }
        let pmb : MbD := { stuffing := 0, kind := .coded .inter 0 (1, -1) ((0, 0), (0, 0), (0, 0)) [full64, full64, {}, full64, full64, {}] }
        let hdr (pt : Nat) : HdrD := .sorenson { version := fl, tr := 1 + pt, sizeCode := 0, customW := 16, customH := 16, picType := pt,
                                                 deblock := false, quant := q, extra := [] }
        out := s!"P 1 d:{hexOf { hdr := hdr 0, mbs := [imb] }};d:{hexOf { hdr := hdr 1, mbs := [pmb] }}" :: out
  return out.reverse

/-- pictures whose declared width or height sits at the top of the 16-bit range (the other dimension small): header plus the
first macroblocks; both Sorenson versions -/
def edgeSizeCases (pp : Bool) (count : Nat) : G (List String) := do
  let mut out : List String := []
  let sizes : List (Nat × Nat) := [(65535, 1), (65535, 2), (1, 65535), (4, 65535), (65534, 3), (65521, 2), (2, 65521), (65520, 1), (65535, 16),
                 (16, 65535), (32768, 1), (32769, 2), (4097, 3), (255, 256), (256, 255), (256, 1), (1, 256)]
  -- `count` > 0: only the first `count` sizes, one stream version (quick tier)
  for (w, h) in (if count = 0 then sizes else sizes.take count) do
    for v in (if count = 0 then [0, 1] else [1]) do
      let q ← range 1 31
      let hdr : SorensonHdr := { version := v, tr := w % 256, sizeCode := 1, customW := w, customH := h, picType := 0,
                                 deblock := false, quant := q, extra := [] }
      -- complete pictures (every macroblock present, so that they decode and can be post-processed), DC-only blocks
      let total := ((w + 15) / 16) * ((h + 15) / 16)
      let dcv ← range 1 254
      let dcv := if dcv = 128 then 129 else dcv
      let blk : BlockD := { dc := some dcv }
      let mb : MbD := { stuffing := 0, kind := .coded .intra 0 (0, 0) ((0, 0), (0, 0), (0, 0)) [blk, blk, blk, blk, blk, blk] }
      let mbs := List.replicate total mb
      let p : PicD := { hdr := .sorenson hdr, mbs := mbs }
      out := (if pp then s!"PP 1 {hexOf p}" else s!"P 1 d:{hexOf p}") :: out
  pure out.reverse

/-- a picture whose width or height lies at the top of the 16-bit range followed by a small picture in the same reader, and
(second line) one reader each: the macroblock count of such sizes (4096 per line / column) decides where the first picture ends -/
def edgeConcatCases (count : Nat) : G (List String) := do
  let mut out : List String := []
  let sizes : List (Nat × Nat) := [(65528, 16), (16, 65535), (65521, 2), (65535, 1), (2, 65529), (65520, 16)]
  for (w, h) in sizes.take (if count = 0 then sizes.length else count) do
    let q ← range 1 31
    let hdr : SorensonHdr := { version := 1, tr := w % 256, sizeCode := 1, customW := w, customH := h, picType := 0,
                               deblock := false, quant := q, extra := [] }
    let total := ((w + 15) / 16) * ((h + 15) / 16)
    let dcv ← range 1 254
    let dcv := if dcv = 128 then 129 else dcv
    let blk : BlockD := { dc := some dcv }
    let mb : MbD := { stuffing := 0, kind := .coded .intra 0 (0, 0) ((0, 0), (0, 0), (0, 0)) [blk, blk, blk, blk, blk, blk] }
    let big : PicD := { hdr := .sorenson hdr, mbs := List.replicate total mb }
    let small ← genPic { flavour := 1 } 0 (16, 16) 9 true
    out := s!"P 1 r:{hexOf big};r:{hexOf small}" :: s!"P 1 a:{hexOf big}{hexOf small};n;n" :: out
  pure out.reverse

/-- two pictures in one source, the second one 0..7 zero bits behind the first (so that its start code is byte aligned or not),
delivered in two pieces cut at every byte around the junction: the first call must decode the first picture whatever part of
the second one has arrived, and a call that fails for lack of data must leave everything as it was -/
def junctionCases (count : Nat) : G (List String) := do
  let mut out : List String := []
  for n in [0:count] do
    let fl ← pick [1, 2, 3, 2, 3]
    let dims := if fl = 2 then (128, 96) else (32, 16)
    let tr ← below 200
    let i ← genPic { flavour := fl } 0 dims tr true
    let p ← genPic { flavour := fl } 1 dims (tr + 1) true
    let p : PicD := match p.hdr with
      | .plus hh => { p with hdr := .plus { hh with ufep := true } }
      | _ => p
    let k := n % 8
    let b1 := encodePicBits i ++ List.replicate k false
    let all := bitsToBytes (padToByte (b1 ++ encodePicBits p))
    let j := b1.length / 8
    let o := optsOf { flavour := fl } false
    for d in [0:9] do
      let sp := j + d - 3
      if 0 < sp ∧ sp < all.length then
        out := s!"P {o} a:{hex (all.take sp).toArray};n;a:{hex (all.drop sp).toArray};n;n" :: out
  pure out.reverse

/-- intra pictures of one decoder whose sizes have the same number of luma samples but another shape (32x16, 16x32, 16x32; 45x5,
15x15, 15x15; ...): the planes of each picture must have the sizes of ITS header, whatever buffers an earlier picture left -/
def shapeSwitchCases : G (List String) := do
  let mut out : List String := []
  for sizes in [[(32, 16), (16, 32), (16, 32)], [(45, 5), (15, 15), (15, 15)], [(48, 16), (16, 48), (24, 32), (32, 24), (32, 24)],
                [(17, 3), (3, 17), (3, 17)], [(16, 32), (32, 16), (32, 16), (16, 32)], [(15, 15), (45, 5), (5, 45), (5, 45)],
                [(64, 16), (32, 32), (32, 32), (16, 64), (16, 64)]] do
    for fl in [0, 1] do
      let mut ops : List String := []
      let mut k := 0
      for d in sizes do
        let pt ← pick [0, 0, 0]
        let p ← genPic { flavour := fl } pt d (7 + k) true
        ops := s!"d:{hexOf p}" :: ops
        k := k + 1
      out := ("P 1 " ++ ";".intercalate ops.reverse) :: out
  pure out.reverse

/-- PLUSPTYPE custom picture formats at the ends of the CPFMT ranges: heights of 1024 lines and more (PHI above 255), the largest
(1152), widths up to 2048, and the smallest (4 x 4): intra pictures, every macroblock present -/
def tallPlusCases (count : Nat) : G (List String) := do
  let mut out : List String := []
  let sizes : List (Nat × Nat) := [(16, 1028), (8, 1152), (16, 1024), (2048, 16), (2044, 4), (4, 4), (16, 1020), (12, 516), (1028, 8)]
  for d in sizes.take (if count = 0 then sizes.length else count) do
    let p ← genPic { flavour := 3 } 0 d 11 true
    let p : PicD := match p.hdr with
      | .plus hh => { p with hdr := .plus { hh with ufep := true } }
      | _ => p
    out := s!"P 0 d:{hexOf p}" :: out
  pure out.reverse

/-- hand-built stress streams for C01: zero sizes, 11-bit levels at high quantizers, more macroblock data than the picture
holds, a reference of another size -/
def stressCases : G (List String) := do
  let mut out : List String := []
  -- zero / tiny / asymmetric custom sizes, both size-code forms
  for (w, h) in [(0, 0), (0, 16), (16, 0), (1, 1), (1, 255), (255, 1), (17, 1), (1, 17)] do
    for code in [0, 1] do
      let p ← genPic { flavour := 1 } 0 (16, 16) 3 true
      let hdr : SorensonHdr := { version := 1, tr := 3, sizeCode := code, customW := w, customH := h, picType := 0,
                                 deblock := false, quant := 31, extra := [] }
      out := s!"P 1 d:{hexOf { p with hdr := .sorenson hdr }}" :: out
  -- dimensions at the top of the u16 range (the other one small, so that the planes still fit in memory)
  for (w, h) in [(65535, 16), (16, 65535), (65521, 1), (1, 65521), (65520, 2), (65535, 1), (32768, 3), (4097, 17)] do
    let hdr : SorensonHdr := { version := 0, tr := 9, sizeCode := 1, customW := w, customH := h, picType := 0,
                               deblock := false, quant := 5, extra := [] }
    out := s!"P 1 d:{hexOf { hdr := .sorenson hdr, mbs := [] }}" :: out
  -- 11-bit escape levels at every quantizer
  for q in [1, 16, 17, 30, 31] do
    for lvl in [(1023 : Int), -1023, 529, -529, 528, 964] do
      let blk : BlockD := { dc := some 128 |>.map (fun _ => 200), events := [{ run := 0, level := lvl, form := .esc11 }, { run := 62, level := -lvl, form := .esc11 }] }
      let mb : MbD := { stuffing := 0, kind := .coded .intra 0 (0, 0) ((0, 0), (0, 0), (0, 0)) [blk, blk, blk, blk, blk, blk] }
      let p : PicD := { hdr := .sorenson { version := 1, tr := 1, sizeCode := 0, customW := 16, customH := 16, picType := 0,
                                           deblock := true, quant := q, extra := [] }, mbs := [mb] }
      out := s!"P 1 d:{hexOf p}" :: out
  -- more macroblocks than the picture holds; then a predicted picture of another size
  for n in [2, 3, 9] do
    let p ← genPic { flavour := 0 } 0 (16, 16) 7 true
    let extra ← (List.range n).mapM fun _ => genMb { flavour := 0 } true
    let small ← genPic { flavour := 0 } 1 (16, 16) 8 true
    let big ← genPic { flavour := 0 } 0 (48, 32) 7 true
    out := s!"P 1 d:{hexOf { p with mbs := p.mbs ++ extra }};n" :: out
    out := s!"P 1 d:{hexOf big};d:{hexOf small};n" :: s!"P 1 d:{hexOf p};d:{hexOf { small with hdr := big.hdr, mbs := small.mbs }}" :: out
  -- standard mode: a macroblock error followed by a start code with a GOB number (1..14, 16..30: GOB headers are not implemented;
  -- 0 / 15 / 31 read as a picture start or end of sequence)
  for gid in [1, 7, 14, 0, 15, 31, 16, 30] do
    for fl in [2, 3] do
      let p ← genPic { flavour := fl } 0 (128, 96) 4 true
      let bytes := encodePic { p with mbs := p.mbs.take 5 } ++ [0, 0, 0x80 + gid * 4, 0x55, 0xAA]
      out := s!"P 0 d:{hex bytes.toArray};n" :: out
  -- PLUSPTYPE + UMV: a motion vector difference in the UMV code that never terminates (twelve continuation pairs): InvalidMvd;
  -- and the longest ones that do terminate
  for pairs in [12, 11, 10, 1, 0] do
    for sign in [false, true] do
      let i ← genPic { flavour := 3 } 0 (32, 32) 1 true
      let ph : PlusHdr := { tr := 2, ufep := true, srcFmt := 6, umv := true, uuiUnlimited := true, picType := 1, par := 2, pwi := 7, phi := 8, quant := 5 }
      let cont : Bits := (List.range pairs).flatMap fun k => [decide (k % 2 = 1), true]
      let mvd := if pairs = 0 then [true] else [false] ++ cont ++ (if pairs = 12 then [] else [sign, false])
      let mb := [false, true, true, true] ++ mvd ++ mvd
      let bits := (HdrD.plus ph).encode ++ mb ++ mb ++ mb ++ mb
      out := s!"P 0 d:{hexOf i};d:{hex (bitsToBytes (padToByte bits)).toArray};n" :: out
  -- PLUSPTYPE + UMV: the largest differences, all of one sign, along one row of macroblocks (vectors accumulate through the
  -- median predictor until the half-sample arithmetic saturates)
  for sign in [false, true] do
    for nmb in [3, 5, 8] do
      let i ← genPic { flavour := 3 } 0 (128, 16) 1 true
      let ph : PlusHdr := { tr := 2, ufep := true, srcFmt := 6, umv := true, uuiUnlimited := true, picType := 1, par := 2, pwi := 31, phi := 4, quant := 5 }
      let cont : Bits := (List.range 11).flatMap fun _ => [true, true]
      let mvd := [false] ++ cont ++ [sign, false]
      let mb := [false, true, true, true] ++ mvd ++ mvd
      let bits := (HdrD.plus ph).encode ++ (List.range nmb).flatMap fun _ => mb
      out := s!"P 0 d:{hexOf i};d:{hex (bitsToBytes (padToByte bits)).toArray};n" :: out
  -- PLUSPTYPE predicted picture with UFEP = 000 and no previous picture (no format to inherit)
  for k in [0, 1, 2] do
    let p ← genPic { flavour := 3 } 1 (32, 32) k true
    out := s!"P 0 d:{hexOf p};n" :: out
  -- a predicted picture that declares another size than its reference: same width and a smaller height that is not a multiple
  -- of 16 or of 8, a taller one, a narrower and a wider one (the code must reject the prediction, never index by the other size)
  for fl in [0, 1] do
    for (pw, ph) in [(32, 12), (32, 20), (32, 28), (32, 8), (32, 17), (32, 31), (32, 36), (32, 48), (20, 32), (40, 32), (31, 32), (16, 16)] do
      let i ← genPic { flavour := fl } 0 (32, 32) 5 true
      let p ← genPic { flavour := fl } 1 (pw, ph) 6 true
      let p2 ← genPic { flavour := fl } 2 (pw, ph) 7 true
      out := s!"P 1 d:{hexOf i};r:{hexOf p};r:{hexOf p2}" :: out
  for (pw, ph) in [(32, 12), (32, 20), (36, 32), (32, 36)] do
    let i ← genPic { flavour := 3 } 0 (32, 32) 5 true
    let p ← genPic { flavour := 3 } 1 (pw, ph) 6 true
    let hdr := match p.hdr with
      | .plus hh => HdrD.plus { hh with ufep := true }
      | x => x
    out := s!"P 0 d:{hexOf i};r:{hexOf { p with hdr := hdr }}" :: out
  pure out.reverse

/-- options announced by a rejected picture must not reach the next one: a baseline I picture, then (fresh reader) a PLUSPTYPE
picture with UFEP = 001 that switches on modified quantization or unrestricted motion vectors and fails after its header
(MQ: unimplemented at the first coded macroblock; UMV: cut short inside the macroblock data), then (fresh reader) a picture
that carries no OPPTYPE of its own: a baseline predicted picture, or a PLUSPTYPE one with UFEP = 000 -/
def leakCases (count : Nat) : G (List String) := do
  let mut out : List String := []
  for k in [0:count] do
    let tr ← below 256
    let i ← genPic { flavour := 2 } 0 (128, 96) tr true
    let b ← genPic { flavour := 3 } (k % 2) (128, 96) (tr + 1) true
    let b : PicD := match b.hdr with
      | .plus h => { b with hdr := .plus { h with ufep := true, mq := k % 4 < 2, umv := k % 4 ≥ 2, extra := [] } }
      | _ => b
    let bytes := encodePic b
    let cut ← range 18 (max 19 (bytes.length - 1))
    let bad := if k % 4 < 2 ∧ k % 8 < 4 then bytes else bytes.take cut
    let plus3 ← coin 1 3
    let t ← genPic { flavour := if plus3 then 3 else 2 } 1 (128, 96) (tr + 2) true
    let t : PicD := match t.hdr with
      | .plus h => { t with hdr := .plus { h with ufep := false } }
      | _ => t
    out := s!"P 0 d:{hexOf i};r:{hex bad.toArray};r:{hexOf t}" :: out
  pure out.reverse

/-- whole intra pictures of more than 5000 bytes (CIF / 320x240), one per line: the material for deliveries split, and for
errors planted, beyond the first 4 KiB of a picture -/
def bigIntraCases (count : Nat) : G (List String) := do
  let mut out : List String := []
  for _ in [0:count] do
    let fl ← pick [1, 1, 0, 3]
    let dims ← pick [(352, 288), (320, 240)]
    let tr ← below 256
    let mut p ← genPic { flavour := fl } 0 dims tr true
    for _ in [0:4] do
      if (encodePic p).length ≤ 5000 then p ← genPic { flavour := fl } 0 dims tr true
    out := s!"P {optsOf { flavour := fl } false} d:{hexOf p}" :: out
  pure out.reverse

/-- histories that START without a reference picture: disposable (Sorenson) or ordinary predicted pictures made of INTRA
macroblocks only — they decode without a reference, and a disposable one leaves the decoder without a reference — followed by
pictures that need prediction (rejected while there is no reference), an I picture and further predicted pictures -/
def genNoRefCase : G String := do
  let cfg ← genCfg
  let w ← range 1 3
  let h ← range 1 2
  let dims := if cfg.flavour = 2 then (128, 96) else (w * 16, h * 16)
  let tr ← below 250
  let allIntra (pt k : Nat) : G PicD := do
    let p ← genPic cfg pt dims (tr + k) true
    let mbs ← p.mbs.mapM fun _ => genMb cfg true
    let hdr := match p.hdr with
      | .plus hh => HdrD.plus { hh with ufep := true }
      | x => x
    pure { hdr := hdr, mbs := mbs }
  let dispo := if cfg.flavour < 2 then 2 else 1
  let n0 ← range 1 2
  let first ← (List.range n0).mapM fun k => allIntra dispo k
  let p1 ← genPic cfg 1 dims (tr + 2) true
  let i ← genPic cfg 0 dims (tr + 3) true
  let p2 ← genPic cfg (← pick [1, dispo]) dims (tr + 4) true
  let p3 ← genPic cfg 1 dims (tr + 5) true
  let pics := first ++ [p1, i, p2, p3]
  pure (s!"P {optsOf cfg false} " ++ ";".intercalate (pics.map fun p => s!"r:{hexOf p}"))

def runGen (kind : String) (seed count : Nat) : List String :=
  if kind == "leak" then ((leakCases count).run (seed * 2654435761 + 55)).1 else
  if kind == "bigintra" then ((bigIntraCases count).run (seed * 2654435761 + 56)).1 else
  if kind == "stress" then (stressCases.run (seed * 2654435761 + 7)).1 else
  if kind == "esclevels" then escLevelCases ++ fullBlockCases else
  if kind == "bigconcat" then ((bigConcatCases count).run (seed * 2654435761 + 77)).1 else
  if kind == "tallplus" then ((tallPlusCases count).run (seed * 2654435761 + 35)).1 else
  if kind == "shapeswitch" then (shapeSwitchCases.run (seed * 2654435761 + 34)).1 else
  if kind == "junction" then ((junctionCases count).run (seed * 2654435761 + 33)).1 else
  if kind == "edgeconcat" then ((edgeConcatCases count).run (seed * 2654435761 + 32)).1 else
  if kind == "edgesizes" then ((edgeSizeCases false count).run (seed * 2654435761 + 31)).1 else
  if kind == "edgesizespp" then ((edgeSizeCases true count).run (seed * 2654435761 + 31)).1 else
  if kind == "sizes" then ((sizeCases count count).run (seed * 2654435761 + 99)).1 else
  if kind.startsWith "annexa" then annexACases (kind.drop 6).toString.toNat! seed count else
  if kind == "dquant" then dquantCases ++ dquantChainCases else
  let g : G (List String) := do
    let mut out : List String := []
    for _ in [0:count] do
      match kind with
      | "intra" => out := (← genIntraCase) :: out
      | "inter" => out := (← genInterCase) :: out
      | "realsize" => out := (← genRealSizeCase) :: out
      | "hist" => out := (← genHistCase) :: out
      | "noref" => out := (← genNoRefCase) :: out
      | "concat" => out := (← genConcatCase).reverse ++ out
      | _ => pure ()
    pure out.reverse
  (g.run (seed * 2654435761 + 12345)).1

end H263V.Spec.GenCases
