/-
Generator of *valid* picture descriptions (type-directed: built from the specification's own
syntax types), driven by one PRNG state.  Used by the driver's GEN commands; not part of any theorem.
-/
import H263V.Spec.Syntax
namespace H263V.Spec.GenPic
open H263V H263V.Spec.Vlc H263V.Spec.Syntax

abbrev G := StateM Nat

def next : G Nat := do
  let s ← get
  let s' := (s * 6364136223846793005 + 1442695040888963407) % 18446744073709551616
  set s'
  pure (s' / 4294967296)

def below (n : Nat) : G Nat := do
  let v ← next
  pure (if n = 0 then 0 else v % n)

def range (lo hi : Nat) : G Nat := do
  let v ← below (hi - lo + 1)
  pure (lo + v)

def coin (num den : Nat) : G Bool := do
  let v ← below den
  pure (decide (v < num))

def pick {α : Type} [Inhabited α] (xs : List α) : G α := do
  let i ← below xs.length
  pure (xs.getD i default)

/-- stream flavour: 0 Sorenson v0, 1 Sorenson v1, 2 baseline H.263, 3 H.263 with PLUSPTYPE + custom format -/
structure Cfg where
  flavour : Nat
  deriving Repr

def genLevel (cfg : Cfg) : G (Int × Form) := do
  -- magnitude classes: small (short-codable), medium, large (escape only), saturating
  let cls ← below 10
  let mag ← (if cls < 6 then range 1 3 else if cls < 8 then range 1 12 else if cls < 9 then range 13 127 else
    (if cfg.flavour = 1 then pick [1023, 1000, 529, 528, 300, 64, 63, 128] else pick [127, 126, 100, 64, 34, 33]))
  let neg ← coin 1 2
  let lvl : Int := if neg then -(mag : Int) else mag
  pure (lvl, Form.short)

/-- choose how the event is written; `last` is known only once the list is complete -/
def chooseForm (cfg : Cfg) (last : Bool) (run : Nat) (level : Int) (preferEscape : Bool) : Form :=
  let canShort := (tcoefCode last run level.natAbs).isSome
  if canShort ∧ !preferEscape then .short
  else if cfg.flavour = 1 then (if -63 ≤ level ∧ level ≤ 63 ∧ !(level.natAbs % 2 = 0 ∧ level.natAbs > 40) then .esc7 else .esc11)
  else .esc8

def clampLevel (cfg : Cfg) (l : Int) : Int :=
  if cfg.flavour = 1 then l else if l > 127 then 127 else if l < -127 then -127 else l

/-- events of one block; `start` = first free zig-zag position (1 after an INTRADC) -/
def genEvents (cfg : Cfg) (start : Nat) : G (List Event) := do
  let shape ← below 18
  -- shape 17: a completely filled block (every remaining position coded, all runs zero); 16: filled except for the last positions
  let n ← (if shape < 6 then range 1 2 else if shape < 12 then range 1 6 else if shape < 14 then range 6 20 else if shape < 16 then range 20 63
           else pure 64)
  let dense := shape ≥ 16
  let stopAt ← (if shape = 16 then range 60 63 else pure 64)
  let rec go (k : Nat) (pos : Nat) (acc : List (Nat × Int × Bool)) : G (List (Nat × Int × Bool)) :=
    match k with
    | 0 => pure acc.reverse
    | k + 1 => do
      if pos ≥ 64 ∨ (dense ∧ pos ≥ stopAt) then pure acc.reverse else
      let maxRun := 63 - pos
      let r0 ← (do let c ← below 4; if c < 2 then pure 0 else if c < 3 then range 0 3 else range 0 40)
      let run := if dense then 0 else min r0 maxRun
      let (lvl, _) ← genLevel cfg
      let esc ← coin 1 6
      go k (pos + run + 1) ((run, clampLevel cfg lvl, esc) :: acc)
  let raw ← go n start []
  let m := raw.length
  pure (raw.zipIdx.map fun ((run, lvl, esc), i) => { run := run, level := lvl, form := chooseForm cfg (i + 1 == m) run lvl esc })

def genDc : G Nat := do
  let c ← below 20
  if c = 0 then pure 255 else if c = 1 then pick [1, 2, 127, 129, 254] else do
    let v ← range 1 254
    pure (if v = 128 then 129 else v)

def genBlock (cfg : Cfg) (intra : Bool) (codedProb : Nat) : G BlockD := do
  let dc ← (if intra then do let d ← genDc; pure (some d) else pure none)
  let coded ← coin codedProb 10
  if coded then do
    let ev ← genEvents cfg (if intra then 1 else 0)
    pure { dc := dc, events := ev }
  else pure { dc := dc, events := [] }

def genMvdComp : G Int := do
  let c ← below 10
  if c < 3 then pure 0
  else if c < 6 then do let v ← range 0 6; pure ((v : Int) - 3)
  else if c < 9 then do let v ← range 0 63; pure ((v : Int) - 32)
  else pick [-32, 31, -31, 30, 1, -1]

def genMvd : G Mvd := do
  let x ← genMvdComp
  let y ← genMvdComp
  pure (x, y)

def genMb (cfg : Cfg) (intraPicture : Bool) : G MbD := do
  let st ← below 25
  let stuffing := if st = 0 then 1 else if st = 1 then 2 else 0
  if intraPicture then do
    let q ← coin 1 4
    let dq ← pick [(-2 : Int), -1, 1, 2]
    let prob ← pick [0, 3, 7, 10]
    let bl ← (List.range 6).mapM fun _ => genBlock cfg true prob
    pure { stuffing := stuffing, kind := .coded (if q then .intraQ else .intra) dq (0, 0) ((0, 0), (0, 0), (0, 0)) bl }
  else do
    let k ← below 20
    if k < 4 then pure { stuffing := stuffing, kind := .notCoded } else
    let t : MbType := if k < 9 then .inter else if k < 11 then .interQ else if k < 14 then .inter4V
      else if k < 15 then .inter4Vq else if k < 18 then .intra else .intraQ
    let dq ← pick [(-2 : Int), -1, 1, 2]
    let mvd ← genMvd
    let m2 ← genMvd
    let m3 ← genMvd
    let m4 ← genMvd
    let prob ← pick [0, 0, 3, 7, 10]
    let bl ← (List.range 6).mapM fun _ => genBlock cfg t.isIntra prob
    pure { stuffing := stuffing, kind := .coded t dq mvd (m2, m3, m4) bl }

def genExtra : G (List Nat) := do
  let c ← below 8
  if c = 0 then do let a ← below 256; pure [a]
  else if c = 1 then do let a ← below 256; let b ← below 256; pure [a, b]
  else pure []

/-- size classes: 1x1 MB, one row, one column, not a multiple of 16, >= 3x3 MB -/
def genDims : G (Nat × Nat) := do
  let c ← below 10
  if c = 0 then do let w ← range 1 16; let h ← range 1 16; pure (w, h)
  else if c = 1 then do let w ← range 17 80; let h ← range 1 16; pure (w, h)
  else if c = 2 then do let w ← range 1 16; let h ← range 17 80; pure (w, h)
  else if c < 6 then do let w ← range 17 70; let h ← range 17 70; pure (w, h)
  else if c < 8 then do let w ← range 2 5; let h ← range 2 5; pure (w * 16, h * 16)
  else do let w ← range 33 100; let h ← range 33 80; pure (w, h)

/-- header for a picture of kind `pt` (0 I, 1 P, 2 disposable P) with dimensions fixed by `dims` when the
flavour can express them (Sorenson: any; PLUSPTYPE: multiples of 4; baseline: sub-QCIF only) -/
def genHdr (cfg : Cfg) (pt : Nat) (dims : Nat × Nat) (tr quant : Nat) (plain : Bool := false) : G HdrD := do
  let extra ← genExtra
  match cfg.flavour with
  | 0 | 1 =>
    let (w, h) := dims
    let code : Nat := if (w, h) = (352, 288) then 2 else if (w, h) = (176, 144) then 3 else if (w, h) = (128, 96) then 4
      else if (w, h) = (320, 240) then 5 else if (w, h) = (160, 120) then 6 else if w < 256 ∧ h < 256 then 0 else 1
    let use16 ← coin 1 5
    -- a size that has a predefined code is written with the custom form half of the time (same dimensions, another encoding)
    let custom ← coin 1 2
    let code := if code ≥ 2 ∧ custom then (if w < 256 ∧ h < 256 then 0 else 1) else code
    let code := if code = 0 ∧ use16 then 1 else code
    let db ← coin 1 2
    pure (.sorenson { version := cfg.flavour, tr := tr % 256, sizeCode := code, customW := w, customH := h, picType := pt,
                       deblock := db, quant := quant, extra := extra })
  | 2 =>
    let cpm ← below 6
    pure (.base { tr := tr % 256, srcFmt := 1, inter := pt != 0, quant := quant,
                  cpm := if cpm = 0 then some 2 else none, extra := extra })
  | _ =>
    let (w, h) := dims
    -- UFEP = 000 on half of the predicted pictures (format and OPPTYPE-class modes inherited from the previous picture); rarely
    -- an I picture without a format (rejected), modified quantization (unimplemented) or UMV (the other MVD code);
    -- the modes the decoder parses and ignores are switched on at random
    let inh ← coin 1 2
    let odd0 ← below 24
    -- `plain`: only pictures that are valid in the macroblock syntax the encoder writes (no MQ, no PLUSPTYPE UMV, format present)
    let odd := if plain then odd0 + 3 else odd0
    let m ← below 256
    let pcf ← coin 1 4
    let etr ← below 4
    let cpcfc ← below 256
    let rt ← coin 1 2
    let cpm ← below 8
    let unl ← coin 1 2
    let ufep := if pt = 0 then odd != 0 else !inh
    pure (.plus { tr := tr % 256, ufep := ufep, srcFmt := 6, customPcf := pcf, umv := odd = 2, sac := m % 2 = 1, ap := m / 2 % 2 = 1,
                  aic := m / 4 % 2 = 1, df := m / 8 % 2 = 1, ss := m / 16 % 2 = 1, isd := m / 32 % 2 = 1, aiv := m / 64 % 2 = 1,
                  mq := odd = 1, picType := if pt = 0 then 0 else 1, rtype := rt, cpm := if cpm = 0 then some 1 else none, par := 2,
                  pwi := (w + 3) / 4 - 1, phi := (h + 3) / 4, cpcfc := cpcfc, etr := etr, uuiUnlimited := unl, sssRect := m / 128 = 1,
                  quant := quant, extra := extra })

/-- the dimensions the flavour will actually signal for a wish `dims` -/
def realDims (cfg : Cfg) (dims : Nat × Nat) : Nat × Nat :=
  match cfg.flavour with
  | 0 | 1 => dims
  | 2 => (128, 96)
  | _ => (((dims.1 + 3) / 4) * 4, ((dims.2 + 3) / 4) * 4)

def genPic (cfg : Cfg) (pt : Nat) (dims : Nat × Nat) (tr : Nat) (complete : Bool := false) : G PicD := do
  let quant ← (do let c ← below 6; if c = 0 then pick [1, 2, 30, 31] else range 1 31)
  let hdr ← genHdr cfg pt dims tr quant complete
  let (w, h) := hdr.dims
  let total := ((w + 15) / 16) * ((h + 15) / 16)
  let trunc ← below 12
  let n ← (if trunc = 0 ∧ total > 1 ∧ !complete then range 0 (total - 1) else pure total)
  let mbs ← (List.range n).mapM fun _ => genMb cfg (pt == 0)
  pure { hdr := hdr, mbs := mbs }

end H263V.Spec.GenPic
