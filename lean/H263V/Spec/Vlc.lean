/-
Specification: the variable-length code tables of H.263 (01/2005) — Table 7 (MCBPC, I-pictures),
Table 8 (MCBPC, P-pictures), Table 12 (DQUANT), Table 13 (CBPY), Table 14 (MVD), Table 16 (TCOEF) —
written as *encoders* (symbol ↦ codeword), independently of the decoder trees in the Rust source.
-/
import H263V.Model.Vlc
import H263V.Model.Bits
namespace H263V.Spec.Vlc
open H263V

/-- `n` bits of `v`, most significant first -/
def natBits : Nat → Nat → Bits
  | 0, _ => []
  | n + 1, v => ((v / 2 ^ n) % 2 == 1) :: natBits n v

/-- two's complement `n`-bit field of `v` -/
def intBits (n : Nat) (v : Int) : Bits := natBits n (if v < 0 then (v + (2 ^ n : Nat)).toNat else v.toNat)

/-! ### Table 16: TCOEF.  Symbols in table order, then (code value, length) in the same order. -/

def tcoefSyms : List (Bool × Nat × Nat) :=
  -- LAST = 0
  ((List.range 12).map fun l => (false, 0, l + 1)) ++ ((List.range 6).map fun l => (false, 1, l + 1)) ++
  ((List.range 4).map fun l => (false, 2, l + 1)) ++
  ((List.range 4).flatMap fun r => (List.range 3).map fun l => (false, r + 3, l + 1)) ++
  ((List.range 4).flatMap fun r => (List.range 2).map fun l => (false, r + 7, l + 1)) ++
  ((List.range 16).map fun r => (false, r + 11, 1)) ++
  -- LAST = 1
  ((List.range 3).map fun l => (true, 0, l + 1)) ++ ((List.range 2).map fun l => (true, 1, l + 1)) ++
  ((List.range 39).map fun r => (true, r + 2, 1))

def tcoefCodes : List (Nat × Nat) := [
  (0x2,2),(0xf,4),(0x15,6),(0x17,7),(0x1f,8),(0x25,9),(0x24,9),(0x21,10),(0x20,10),(0x7,11),(0x6,11),(0x20,11),
  (0x6,3),(0x14,6),(0x1e,8),(0xf,10),(0x21,11),(0x50,12),(0xe,4),(0x1d,8),(0xe,10),(0x51,12),(0xd,5),(0x23,9),(0xd,10),
  (0xc,5),(0x22,9),(0x52,12),(0xb,5),(0xc,10),(0x53,12),(0x13,6),(0xb,10),(0x54,12),(0x12,6),(0xa,10),(0x11,6),(0x9,10),
  (0x10,6),(0x8,10),(0x16,7),(0x55,12),(0x15,7),(0x14,7),(0x1c,8),(0x1b,8),(0x21,9),(0x20,9),(0x1f,9),(0x1e,9),(0x1d,9),
  (0x1c,9),(0x1b,9),(0x1a,9),(0x22,11),(0x23,11),(0x56,12),(0x57,12),(0x7,4),(0x19,9),(0x5,11),(0xf,6),(0x4,11),(0xe,6),
  (0xd,6),(0xc,6),(0x13,7),(0x12,7),(0x11,7),(0x10,7),(0x1a,8),(0x19,8),(0x18,8),(0x17,8),(0x16,8),(0x15,8),(0x14,8),
  (0x13,8),(0x18,9),(0x17,9),(0x16,9),(0x15,9),(0x14,9),(0x13,9),(0x12,9),(0x11,9),(0x7,10),(0x6,10),(0x5,10),(0x4,10),
  (0x24,11),(0x25,11),(0x26,11),(0x27,11),(0x58,12),(0x59,12),(0x5a,12),(0x5b,12),(0x5c,12),(0x5d,12),(0x5e,12),(0x5f,12)]

/-- (LAST, RUN, |LEVEL|) ↦ codeword (without the sign bit) -/
def tcoefTable : List ((Bool × Nat × Nat) × Bits) :=
  (tcoefSyms.zip tcoefCodes).map fun (s, (v, n)) => (s, natBits n v)

def tcoefCode (last : Bool) (run level : Nat) : Option Bits :=
  (tcoefTable.find? fun e => e.1 == (last, run, level)).map (·.2)

def tcoefEscape : Bits := natBits 7 0x3

/-! ### Tables 7 and 8: MCBPC -/

def mbTypeIndex : MbType → Nat
  | .inter => 0 | .interQ => 1 | .inter4V => 2 | .intra => 3 | .intraQ => 4 | .inter4Vq => 5

def bitsOfString (s : String) : Bits := s.toList.map (· == '1')

/-- Table 7: (type, CBPC bit for Cb, CBPC bit for Cr) ↦ codeword -/
def mcbpcITable : List ((MbType × Bool × Bool) × Bits) := [
  ((.intra, false, false), bitsOfString "1"), ((.intra, false, true), bitsOfString "001"),
  ((.intra, true, false), bitsOfString "010"), ((.intra, true, true), bitsOfString "011"),
  ((.intraQ, false, false), bitsOfString "0001"), ((.intraQ, false, true), bitsOfString "000001"),
  ((.intraQ, true, false), bitsOfString "000010"), ((.intraQ, true, true), bitsOfString "000011")]

/-- Table 8 -/
def mcbpcPTable : List ((MbType × Bool × Bool) × Bits) := [
  ((.inter, false, false), bitsOfString "1"), ((.inter, false, true), bitsOfString "0011"),
  ((.inter, true, false), bitsOfString "0010"), ((.inter, true, true), bitsOfString "000101"),
  ((.interQ, false, false), bitsOfString "011"), ((.interQ, false, true), bitsOfString "0000111"),
  ((.interQ, true, false), bitsOfString "0000110"), ((.interQ, true, true), bitsOfString "000000101"),
  ((.inter4V, false, false), bitsOfString "010"), ((.inter4V, false, true), bitsOfString "0000101"),
  ((.inter4V, true, false), bitsOfString "0000100"), ((.inter4V, true, true), bitsOfString "00000101"),
  ((.intra, false, false), bitsOfString "00011"), ((.intra, false, true), bitsOfString "00000100"),
  ((.intra, true, false), bitsOfString "00000011"), ((.intra, true, true), bitsOfString "0000011"),
  ((.intraQ, false, false), bitsOfString "000100"), ((.intraQ, false, true), bitsOfString "000000100"),
  ((.intraQ, true, false), bitsOfString "000000011"), ((.intraQ, true, true), bitsOfString "000000010"),
  ((.inter4Vq, false, false), bitsOfString "00000000010"), ((.inter4Vq, false, true), bitsOfString "0000000001100"),
  ((.inter4Vq, true, false), bitsOfString "0000000001110"), ((.inter4Vq, true, true), bitsOfString "0000000001111")]

def mcbpcStuffing : Bits := bitsOfString "000000001"

def mcbpcCode (intraPicture : Bool) (t : MbType) (cb cr : Bool) : Option Bits :=
  ((if intraPicture then mcbpcITable else mcbpcPTable).find? fun e => e.1 == (t, cb, cr)).map (·.2)

/-! ### Table 13: CBPY (pattern for INTRA macroblocks; INTER macroblocks use the complement) -/
def cbpyTable : List ((Bool × Bool × Bool × Bool) × Bits) :=
  let b := fun (s : String) => match s.toList.map (· == '1') with
    | [a, b, c, d] => (a, b, c, d)
    | _ => (false, false, false, false)
  [(b "0000", bitsOfString "0011"), (b "0001", bitsOfString "00101"), (b "0010", bitsOfString "00100"),
   (b "0011", bitsOfString "1001"), (b "0100", bitsOfString "00011"), (b "0101", bitsOfString "0111"),
   (b "0110", bitsOfString "000010"), (b "0111", bitsOfString "1011"), (b "1000", bitsOfString "00010"),
   (b "1001", bitsOfString "000011"), (b "1010", bitsOfString "0101"), (b "1011", bitsOfString "1010"),
   (b "1100", bitsOfString "0100"), (b "1101", bitsOfString "1000"), (b "1110", bitsOfString "0110"),
   (b "1111", bitsOfString "11")]

def cbpyCode (intra : Bool) (p : Bool × Bool × Bool × Bool) : Bits :=
  let q := if intra then p else (!p.1, !p.2.1, !p.2.2.1, !p.2.2.2)
  ((cbpyTable.find? fun e => e.1 == q).map (·.2)).getD []

/-! ### Table 12: DQUANT -/
def dquantCode (d : Int) : Bits :=
  if d = -1 then natBits 2 0 else if d = -2 then natBits 2 1 else if d = 1 then natBits 2 2 else natBits 2 3

/-! ### Table 14: MVD.  Index k = |v| in half-sample units (1..32): (code value, length without sign bit). -/
def mvdMag : List (Nat × Nat) := [
  (1,2),(1,3),(1,4),(3,6),(5,7),(4,7),(3,7),(11,9),(10,9),(9,9),(17,10),(16,10),(15,10),(14,10),(13,10),
  (12,10),(11,10),(10,10),(9,10),(8,10),(7,10),(6,10),(5,10),(4,10),(7,11),(6,11),(5,11),(4,11),(3,11),(2,11),(3,12),(2,12)]

/-- differential `v` in half-sample units, -32 ≤ v ≤ 31 -/
def mvdCode (v : Int) : Bits :=
  if v = 0 then [true] else
  match mvdMag[v.natAbs - 1]? with
  | some (c, n) => natBits n c ++ [decide (v < 0)]
  | none => []

end H263V.Spec.Vlc
