/-
Model of `deblock/src/deblock.rs`: scalar kernel, 8-lane vector kernel (per lane, with the
wrapping i16 arithmetic of the `wide` crate made explicit), both passes with their
chunk / remainder structure, and `deblock`.
-/
import H263V.Model.Outcome
namespace H263V.Deblock

/-- Truncating division by a positive literal (Rust `/` on signed integers), written so that `omega` decides it. -/
def td (x k : Int) : Int := if 0 ≤ x then x / k else -((-x) / k)

def signum (x : Int) : Int := if 0 < x then 1 else if x < 0 then -1 else 0
def iabs (x : Int) : Int := if x < 0 then -x else x
def imax (a b : Int) : Int := if a ≤ b then b else a
def imin (a b : Int) : Int := if a ≤ b then a else b
def clampI (x lo hi : Int) : Int := imin (imax x lo) hi

def inI16 (x : Int) : Bool := decide (-32768 ≤ x) && decide (x ≤ 32767)

/-- checked i16 result: panics (overflow checks on) when the value leaves the type -/
def chk16 (site : String) (x : Int) : Out Int := if inI16 x then .ok x else .panic site

/-- `x as u8` of an i16 value (truncating cast) -/
def asU8 (x : Int) : Int := x % 256

/-- `scalar_impl::up_down_ramp` -/
def upDownRamp (x s : Int) : Int := signum x * imax (iabs x - imax (2 * (iabs x - s)) 0) 0

/-- `scalar_impl::clipd1` -/
def clipd1 (x lim : Int) : Int := clampI x (-(iabs lim)) (iabs lim)

/-- `scalar_impl::process`.  Inputs are u8 values.  Every intermediate i16 result is range-checked. -/
def processScalar (a b c d s : Int) : Out (Int × Int × Int × Int) := do
  if !(decide (1 ≤ s) && decide (s ≤ 12)) then .panic "debug_assert strength" else
  let t1 ← chk16 "4*b" (4 * b)
  let t2 ← chk16 "a-4b" (a - t1)
  let t3 ← chk16 "4*c" (4 * c)
  let t4 ← chk16 "a-4b+4c" (t2 + t3)
  let t5 ← chk16 "a-4b+4c-d" (t4 - d)
  let dd := td t5 8
  let d1 ← chk16 "ramp" (upDownRamp dd s)
  let t6 ← chk16 "a-d" (a - d)
  let d2 := clipd1 (td t6 4) (td d1 2)
  let ra ← chk16 "a-d2" (a - d2)
  let rb ← chk16 "b+d1" (b + d1)
  let rc ← chk16 "c-d1" (c - d1)
  let rd ← chk16 "d+d2" (d + d2)
  .ok (asU8 ra, asU8 (clampI rb 0 255), asU8 (clampI rc 0 255), asU8 rd)

/-- i16 wrap-around (the `wide` vector types wrap silently) -/
def wrap16 (x : Int) : Int := (x + 32768) % 65536 - 32768

/-- `simd_impl::div_pow2_simd` for one lane: `(x + ((x >> 15) & (2^n - 1))) >> n`, with n ∈ {1,2,3}. -/
def divPow2Lane (x : Int) (n : Nat) : Int :=
  let bias : Int := if x < 0 then (2 ^ n - 1 : Int) else 0
  (wrap16 (x + bias)) / (2 ^ n : Int)

def signumLane (x : Int) : Int :=
  wrap16 ((if x < 0 then -1 else 0) - (if 0 < x then -1 else 0))

def absLane (x : Int) : Int := wrap16 (iabs x)

def upDownRampLane (x s : Int) : Int :=
  wrap16 (signumLane x *
    imax (wrap16 (absLane x - imax (wrap16 (2 * wrap16 (absLane x - s))) 0)) 0)

def clipd1Lane (x lim : Int) : Int :=
  let la := absLane lim
  clampI x (wrap16 (-la)) la

/-- One lane of `simd_impl::process_simd` (all eight lanes are independent). -/
def processLane (a b c d s : Int) : Int × Int × Int × Int :=
  let e := wrap16 (wrap16 (wrap16 (a - wrap16 (4 * b)) + wrap16 (4 * c)) - d)
  let dd := divPow2Lane e 3
  let d1 := upDownRampLane dd s
  let d2 := clipd1Lane (divPow2Lane (wrap16 (a - d)) 2) (divPow2Lane d1 1)
  let ra := wrap16 (a - d2)
  let rb := clampI (wrap16 (b + d1)) 0 255
  let rc := clampI (wrap16 (c - d1)) 0 255
  let rd := wrap16 (d + d2)
  (asU8 ra, asU8 rb, asU8 rc, asU8 rd)

def processSimd (a b c d s : Int) : Out (Int × Int × Int × Int) :=
  if !(decide (1 ≤ s) && decide (s ≤ 12)) then .panic "debug_assert strength" else .ok (processLane a b c d s)

/-! ### Images.  A plane is an `Array Nat` in row-major order. -/

abbrev Img := Array Nat

/-- apply a kernel to the four samples at indices `ia ib ic id` (checked indexing) -/
def applyAt (useSimd : Bool) (img : Img) (ia ib ic id : Nat) (s : Nat) : Out Img :=
  match img[ia]?, img[ib]?, img[ic]?, img[id]? with
  | some a, some b, some c, some d =>
    (if useSimd then processSimd a b c d s else processScalar a b c d s) >>= fun (ra, rb, rc, rd) =>
      .ok ((((img.setIfInBounds ia ra.toNat).setIfInBounds ib rb.toNat).setIfInBounds ic rc.toNat).setIfInBounds id rd.toNat)
  | _, _, _, _ => .panic "index out of bounds"

/-- columns of one horizontal edge: the first `(w/8)*8` columns go through the vector kernel, the rest through the scalar one -/
def horizEdgeCols (w s edgeY : Nat) : Nat → Nat → Img → Out Img
  | 0, _, img => .ok img
  | n + 1, x, img =>
    applyAt (decide (x < (w / 8) * 8)) img ((edgeY - 2) * w + x) ((edgeY - 1) * w + x) (edgeY * w + x) ((edgeY + 1) * w + x) s
      >>= horizEdgeCols w s edgeY n (x + 1)

/-- `deblock_horiz`: `edge_y = 8; while edge_y + 2 <= height { …; edge_y += 8 }` (fuel = number of remaining candidate edges) -/
def horizLoop (w h s : Nat) : Nat → Nat → Img → Out Img
  | 0, _, img => .ok img
  | n + 1, edgeY, img =>
    if edgeY + 2 ≤ h then
      horizEdgeCols w s edgeY w 0 img >>= horizLoop w h s n (edgeY + 8)
    else .ok img

def deblockHoriz (img : Img) (w s : Nat) : Out Img :=
  if w = 0 then .panic "division by zero" else
  let h := img.size / w
  horizLoop w h s (h / 8 + 1) 8 img

/-- chunks `k = 0 .. (w-2)/8 - 1` of `row[2..]`; samples at columns 8k+6 .. 8k+9 -/
def vertRowChunks (w s row : Nat) (useSimd : Bool) : Nat → Nat → Img → Out Img
  | 0, _, img => .ok img
  | n + 1, k, img =>
    applyAt useSimd img (row * w + 8 * k + 6) (row * w + 8 * k + 7) (row * w + 8 * k + 8) (row * w + 8 * k + 9) s
      >>= vertRowChunks w s row useSimd n (k + 1)

def vertRows (w h s : Nat) : Nat → Nat → Img → Out Img
  | 0, _, img => .ok img
  | n + 1, row, img =>
    vertRowChunks w s row (decide (row < (h / 8) * 8)) ((w - 2) / 8) 0 img >>= vertRows w h s n (row + 1)

/-- `deblock_vert`.  Rows below `(h/8)*8` are handled eight at a time by the vector kernel (one row per lane),
the remaining rows by the scalar kernel; rows beyond `len / w` (a trailing partial row) are never touched. -/
def deblockVert (img : Img) (w s : Nat) : Out Img :=
  if w ≥ 10 then
    let h := img.size / w
    vertRows w h s h 0 img
  else .ok img

/-- `deblock` -/
def deblock (data : Img) (w s : Nat) : Out Img :=
  if w = 0 then .panic "remainder by zero" else
  if data.size % w ≠ 0 then .panic "debug_assert len % width" else
  deblockHoriz data w s >>= fun r => deblockVert r w s

end H263V.Deblock
