/-
Model of `HalfPel` / `MotionVector` (types.rs) and `decoder/cpu/mvd_pred.rs`.
A `HalfPel` is its raw i16 count of half samples, modelled as `Int` with explicit range handling:
`+` saturates (after the D14 repair), everything else is checked.
-/
import H263V.Model.Macroblock
namespace H263V.Mv
open H263V H263V.Mb

def satI16 (x : Int) : Int := if x < -32768 then -32768 else if x > 32767 then 32767 else x

/-- `HalfPel + HalfPel` (`saturating_add`) -/
def hpAdd (a b : Int) : Int := satI16 (a + b)

def mvAdd (a b : Mv) : Mv := (hpAdd a.1 b.1, hpAdd a.2 b.2)

/-- `HalfPel::into_lerp_parameters`: (whole-sample offset, interpolate?)  (Rust `/` and `%` truncate) -/
def tdiv2 (v : Int) : Int := if 0 ≤ v then v / 2 else -((-v) / 2)
def tmod2 (v : Int) : Int := v - 2 * tdiv2 v

def lerpParams (v : Int) : Int × Bool :=
  if tmod2 v = 0 then (tdiv2 v, false)
  else if v < 0 then (tdiv2 v - 1, true)
  else (tdiv2 v, true)

/-- `HalfPel::invert` -/
def invert (v : Int) : Int :=
  if v > 0 then v - Gen.HP_INVERT_POS else if v < 0 then v + Gen.HP_INVERT_NEG else v

/-- `HalfPel::is_mv_within_range` -/
def withinRange (v range : Int) : Bool := decide (-range ≤ v ∧ v < range)

/-- `HalfPel::average_sum_of_mvs`: `whole = (v >> 4) << 1; frac = v & 0x0F` -/
def averageSum (v : Int) : Int :=
  let whole := (v / 16) * 2
  let frac := v % 16
  if frac ≤ 2 then whole else if frac ≥ 14 then whole + 2 else whole + 1

/-- `HalfPel::median_of` -/
def medianOf (s m r : Int) : Int :=
  if s > m then
    (if r > m then (if r > s then s else r) else m)
  else if m > r then
    (if r > s then r else s)
  else m

def mvMedian (a b c : Mv) : Mv := (medianOf a.1 b.1 c.1, medianOf a.2 b.2 c.2)

abbrev Mv4 := Mv × Mv × Mv × Mv

def Mv4.get (m : Mv4) : Nat → Mv
  | 0 => m.1
  | 1 => m.2.1
  | 2 => m.2.2.1
  | _ => m.2.2.2

def Mv4.set (m : Mv4) (i : Nat) (v : Mv) : Mv4 :=
  match i with
  | 0 => (v, m.2.1, m.2.2.1, m.2.2.2)
  | 1 => (m.1, v, m.2.2.1, m.2.2.2)
  | 2 => (m.1, m.2.1, v, m.2.2.2)
  | _ => (m.1, m.2.1, m.2.2.1, v)

def zeroMv : Mv := (0, 0)
def zeroMv4 : Mv4 := (zeroMv, zeroMv, zeroMv, zeroMv)

/-- `predict_candidate(predictor_vectors, current_predictors, mb_per_line, index)`, `index < 4`.
`pv` is the slice `predictor_vectors[macroblocks_after_gob..]`. -/
def predictCandidate (pv : Array Mv4) (cur : Mv4) (mbPerLine : Nat) (index : Nat) : Out Mv :=
  if mbPerLine = 0 then .panic "remainder by zero" else
  let currentMb := pv.size
  let col := currentMb % mbPerLine
  let mv1 : Out Mv :=
    if index = 0 ∨ index = 2 then
      (if col = 0 then .ok zeroMv
       else match pv[currentMb - 1]? with
         | some m => .ok (m.get (index + 1))
         | none => .panic "index out of bounds")
    else .ok (cur.get (index - 1))
  mv1.bind fun mv1 =>
  let line := currentMb / mbPerLine
  let lastLineMb := (line - 1) * mbPerLine + col
  let mv2 : Mv :=
    if index = 0 ∨ index = 1 then
      (if line = 0 then mv1
       else match pv[lastLineMb]? with
         | some m => m.get (index + 2)
         | none => mv1)
    else cur.get 0
  let endOfLine := col == mbPerLine - 1
  let mv3 : Mv :=
    if index = 0 ∨ index = 1 then
      (if endOfLine then zeroMv
       else if line = 0 then mv1
       else match pv[lastLineMb + 1]? with
         | some m => m.get 2
         | none => mv1)
    else cur.get 1
  .ok (mvMedian mv1 mv2 mv3)

/-- `halfpel_decode` -/
def halfpelDecode (hdr : PicHdr) (dims : Option (Nat × Nat)) (running : Nat) (predictor mvd : Int) (isX : Bool) : Int :=
  let out := hpAdd mvd predictor
  let umv := Opt.has running Opt.UNRESTRICTED_MOTION_VECTORS
  let go (range : Int) : Int := if withinRange out range then out else hpAdd (invert mvd) predictor
  if umv && !hdr.hasPlusptype then
    (if withinRange predictor Gen.HP_STANDARD_RANGE then out else go Gen.HP_EXTENDED_RANGE)
  else if umv && hdr.mvRange == some .extended then
    let range : Int :=
      match dims with
      | none => Gen.HP_EXTENDED_RANGE
      | some (w, h) =>
        if isX then
          (if w ≤ 352 then Gen.HP_EXTENDED_RANGE
           else if 356 ≤ w ∧ w ≤ 704 then Gen.HP_EXTENDED_RANGE_QUADCIF
           else if 708 ≤ w ∧ w ≤ 1408 then Gen.HP_EXTENDED_RANGE_SIXTEENCIF
           else if 1412 ≤ w then Gen.HP_EXTENDED_RANGE_BEYONDCIF
           else Gen.HP_EXTENDED_RANGE)
        else
          (if h ≤ 288 then Gen.HP_EXTENDED_RANGE
           else if 292 ≤ h ∧ h ≤ 576 then Gen.HP_EXTENDED_RANGE_QUADCIF
           else if 580 ≤ h then Gen.HP_EXTENDED_RANGE_SIXTEENCIF
           else Gen.HP_EXTENDED_RANGE)
    go range
  else go Gen.HP_STANDARD_RANGE

/-- `mv_decode` -/
def mvDecode (hdr : PicHdr) (dims : Option (Nat × Nat)) (running : Nat) (predictor mvd : Mv) : Mv :=
  (halfpelDecode hdr dims running predictor.1 mvd.1 true, halfpelDecode hdr dims running predictor.2 mvd.2 false)

end H263V.Mv
