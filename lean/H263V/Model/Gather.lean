/-
Model of `decoder/picture.rs` (`DecodedPicture`) and `decoder/cpu/gather.rs`.
-/
import H263V.Model.Mv
namespace H263V.Gather
open H263V H263V.Mv H263V.Mb

/-- `DecodedPicture` -/
structure DecPic where
  hdr : PicHdr
  fmt : SrcFmt
  luma : Array Nat
  cb : Array Nat
  cr : Array Nat
  chromaSpr : Nat
  deriving Repr, DecidableEq

/-- `DecodedPicture::new` -/
def DecPic.new (hdr : PicHdr) (fmt : SrcFmt) : Option DecPic :=
  match fmt.dims with
  | none => none
  | some (w, h) =>
    let cw := (w + 1) / 2
    let ch := (h + 1) / 2
    some { hdr := hdr, fmt := fmt, luma := Array.replicate (w * h) 0, cb := Array.replicate (cw * ch) 0,
           cr := Array.replicate (cw * ch) 0, chromaSpr := cw }

/-- the plane sizes `DecodedPicture::new` allocates for a `w x h` picture: luma, each chroma plane, chroma samples per row -/
def planeSizes (w h : Nat) : Nat × Nat × Nat := (w * h, ((w + 1) / 2) * ((h + 1) / 2), (w + 1) / 2)

/-- `read_sample`: coordinates clamped to the plane -/
def readSample (px : Array Nat) (spr rows : Nat) (x y : Int) : Out Nat :=
  let cx : Int := if x < 0 then 0 else if x > ((spr - 1 : Nat) : Int) then ((spr - 1 : Nat) : Int) else x
  let cy : Int := if y < 0 then 0 else if y > ((rows - 1 : Nat) : Int) then ((rows - 1 : Nat) : Int) else y
  match px[cx.toNat + cy.toNat * spr]? with
  | some v => .ok v
  | none => .panic "pixel array index out of bounds"

/-- `lerp` -/
def lerp (a b : Nat) (middle : Bool) : Nat := if middle then (a + b + 1) / 2 else a

def setChecked (t : Array Nat) (i v : Nat) : Out (Array Nat) :=
  if i < t.size then .ok (t.set! i v) else .panic "index out of bounds: target"

/-- `gather_block(pixel_array, samples_per_row, pos, mv, target)` -/
def gatherBlock (px : Array Nat) (spr : Nat) (pos : Nat × Nat) (mv : Mv) (target : Array Nat) : Out (Array Nat) :=
  if spr = 0 then .panic "division by zero: pixel_array.len() / samples_per_row" else
  let (xd, xi) := lerpParams mv.1
  let (yd, yi) := lerpParams mv.2
  let srcX : Int := (pos.1 : Int) + xd
  let srcY : Int := (pos.2 : Int) + yd
  let rows := px.size / spr
  let cols8 := min 8 (spr - pos.1)
  let rows8 := min 8 (rows - pos.2)
  if !xi && !yi then
    if cols8 = 8 ∧ rows8 = 8 ∧ 0 ≤ srcX ∧ srcX ≤ (spr : Int) - 8 ∧ 0 ≤ srcY ∧ srcY ≤ (rows : Int) - 8 then
      -- fast path: eight 8-sample slice copies
      (List.range 8).foldlM (init := target) fun t j =>
        let so := srcX.toNat + (srcY.toNat + j) * spr
        let dst := pos.1 + (pos.2 + j) * spr
        if so + 8 ≤ px.size ∧ dst + 8 ≤ t.size then
          .ok ((List.range 8).foldl (fun t i => t.set! (dst + i) (px.getD (so + i) 0)) t)
        else .panic "slice index out of range (fast path)"
    else
      (List.range rows8).foldlM (init := target) fun t j =>
        (List.range cols8).foldlM (init := t) fun t i => do
          let s ← readSample px spr rows (srcX + (i : Nat)) (srcY + (j : Nat))
          setChecked t (pos.1 + i + (pos.2 + j) * spr) s
  else
    (List.range rows8).foldlM (init := target) fun t j =>
      (List.range cols8).foldlM (init := t) fun t i => do
        let u : Int := srcX + (i : Nat)
        let v : Int := srcY + (j : Nat)
        let s00 ← readSample px spr rows u v
        let s10 ← readSample px spr rows (u + 1) v
        let s01 ← readSample px spr rows u (v + 1)
        let s11 ← readSample px spr rows (u + 1) (v + 1)
        let s := if xi && yi then (s00 + s10 + s01 + s11 + 2) / 4
                 else lerp (lerp s00 s10 xi) (lerp s01 s11 xi) yi
        setChecked t (pos.1 + i + (pos.2 + j) * spr) s

/-- `gather(mb_types, reference_picture, mvs, mb_per_line, new_picture)` -/
def gather (mbTypes : Array MbType) (ref : Option DecPic) (mvs : Array Mv4) (mbPerLine : Nat) (pic : DecPic) : Out DecPic :=
  (List.range (min mbTypes.size mvs.size)).foldlM (init := pic) fun pic i =>
    if (mbTypes.getD i .inter).isInter then
      match ref with
      | none => .err .uncodedIFrame
      | some r =>
        if r.fmt.dims != pic.fmt.dims then .err .formatInvalid else
        match r.fmt.dims with
        | none => .panic "unwrap on None: luma_samples_per_row"
        | some (w, _) =>
          if mbPerLine = 0 then .panic "remainder by zero" else do
          let mv := mvs.getD i zeroMv4
          let px := (i % mbPerLine) * 16
          let py := (i / mbPerLine) * 16
          let l ← gatherBlock r.luma w (px, py) mv.1 pic.luma
          let l ← gatherBlock r.luma w (px + 8, py) mv.2.1 l
          let l ← gatherBlock r.luma w (px, py + 8) mv.2.2.1 l
          let l ← gatherBlock r.luma w (px + 8, py + 8) mv.2.2.2 l
          let mvc := mvAdd (mvAdd (mvAdd mv.1 mv.2.1) mv.2.2.1) mv.2.2.2
          let mvc : Mv := (averageSum mvc.1, averageSum mvc.2)
          let cx := (i % mbPerLine) * 8
          let cy := (i / mbPerLine) * 8
          let b ← gatherBlock r.cb r.chromaSpr (cx, cy) mvc pic.cb
          let c ← gatherBlock r.cr r.chromaSpr (cx, cy) mvc pic.cr
          pure { pic with luma := l, cb := b, cr := c }
    else .ok pic

end H263V.Gather
