/-
Model of `decoder/cpu/idct.rs`: `idct_1d` and `idct_channel` with its four block shapes and cropping.
-/
import H263V.Model.Rle
import H263V.Model.F32
import H263V.Gen.Tables
namespace H263V.Idct
open H263V H263V.Rle H263V.F32

def basis (freq i : Nat) : F :=
  match (Gen.BASIS.getD freq #[]).getD i (0, 0) with
  | (m, e) => ⟨m, e, false⟩

/-- `idct_1d`: `out[i] = Σ_freq input[freq] * BASIS[freq][i]`, accumulated left to right from +0.0 -/
def idct1d (inp : Array F) : Array F :=
  Array.ofFn (n := 8) fun i =>
    (List.range 8).foldl (fun acc f => F32.add acc (F32.mul (inp.getD f F32.zero) (basis f i.val))) F32.zero

/-- `((idct / 4.0 + idct.signum() * 0.5) as i16).clamp(-256, 255)` -/
def finishFull (x : F) : Int × Bool :=
  let r := F32.add (F32.quarter x) (F32.halfSignum x)
  (F32.toI16Clamp r, r.bad)

/-- `((idct * BASIS_TABLE[0][0] / 4.0 + idct.signum() * 0.5) as i16).clamp(-256, 255)` -/
def finishRow (x : F) : Int × Bool :=
  let r := F32.add (F32.quarter (F32.mul x (basis 0 0))) (F32.halfSignum x)
  (F32.toI16Clamp r, r.bad)

/-- `((dc * 0.5 / 4.0 + dc.signum() * 0.5) as i16).clamp(-256, 255)` -/
def finishDc (dc : Int) : Int × Bool :=
  let x := F32.ofInt dc
  let r := F32.add (F32.quarter (F32.mul x ⟨1, -1, false⟩)) (F32.halfSignum x)
  (F32.toI16Clamp r, r.bad)

/-- The 8x8 residual of one block: `res x y` for sample offsets (x, y) inside the block, and a model-gap flag. -/
def blockResidual (b : Dct) : Option ((Nat → Nat → Int) × Bool) :=
  match b with
  | .zero => none
  | .dc v =>
    let (c, bad) := finishDc v
    some (fun _ _ => c, bad)
  | .horiz row =>
    let o := (idct1d (row.toArray.map F32.ofInt)).map finishRow
    some (fun x _ => (o.getD x (0, false)).1, o.any (·.2))
  | .vert col =>
    let o := (idct1d (col.toArray.map F32.ofInt)).map finishRow
    some (fun _ y => (o.getD y (0, false)).1, o.any (·.2))
  | .full d =>
    -- first pass over the rows of block_data, transposed into `idct_intermediate`
    let pass1 : Array (Array F) := Array.ofFn (n := 8) fun r =>
      idct1d (Array.ofFn (n := 8) fun x => F32.ofInt (d.getD (8 * r.val + x.val) 0))
    let inter : Array (Array F) := Array.ofFn (n := 8) fun i =>
      Array.ofFn (n := 8) fun r => (pass1.getD r.val #[]).getD i.val F32.zero
    let out : Array (Array (Int × Bool)) := inter.map fun row => (idct1d row).map finishFull
    some (fun x y => ((out.getD x #[]).getD y (0, false)).1, out.any fun r => r.any (·.2))

def clampU8 (v : Int) : Nat := if v < 0 then 0 else if v > 255 then 255 else v.toNat

/-- add one block's residual into the plane, cropped to `xs × ys` -/
def addBlock (out : Array Nat) (spl xBase yBase xs ys : Nat) (res : Nat → Nat → Int) : Out (Array Nat) :=
  (List.range ys).foldlM (init := out) fun o yo =>
    (List.range xs).foldlM (init := o) fun o xo =>
      let idx := (xBase * 8 + xo) + (yBase * 8 + yo) * spl
      match o[idx]? with
      | some p => .ok (o.set! idx (clampU8 (res xo yo + (p : Int))))
      | none => .panic "index out of bounds: output[x + y * samples_per_line]"

/-- `idct_channel(block_levels, output, blk_per_line, output_samples_per_line)` -/
def idctChannel (levels : Array Dct) (output : Array Nat) (blkPerLine spl : Nat) : Out (Array Nat) :=
  if spl = 0 then .panic "division by zero: output.len() / output_samples_per_line" else
  if blkPerLine = 0 then .panic "division by zero: block_levels.len() / blk_per_line" else
  let outH := output.size / spl
  let blkH := levels.size / blkPerLine
  (List.range blkH).foldlM (init := output) fun o yBase =>
    (List.range blkPerLine).foldlM (init := o) fun o xBase =>
      let id := xBase + yBase * blkPerLine
      match levels[id]? with
      | none => .ok o
      | some b =>
        let xs := min 8 (spl - xBase * 8)
        let ys := min 8 (outH - yBase * 8)
        match blockResidual b with
        | none => .ok o
        | some (res, bad) =>
          if bad then .panic "model gap: f32 value outside the normal range" else
          addBlock o spl xBase yBase xs ys res

end H263V.Idct
