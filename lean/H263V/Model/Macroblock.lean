/-
Model of `h263/src/parser/macroblock.rs` and `parser/block.rs` (tables come from Gen/Tables.lean).
Motion vectors are pairs of raw half-sample counts (`HalfPel(i16)`).
-/
import H263V.Model.Types
import H263V.Gen.Tables
namespace H263V.Mb
open H263V

abbrev Mv := Int × Int

/-- `CodedBlockPattern` -/
structure Cbp where
  luma : Bool × Bool × Bool × Bool
  cb : Bool
  cr : Bool
  deriving Repr, DecidableEq

/-- `types::Macroblock` -/
inductive Macroblock where
  | uncoded
  | stuffing
  | coded (t : MbType) (cbp : Cbp) (dquant : Option Int) (mv : Option Mv) (addl : Option (Mv × Mv × Mv))
  deriving Repr, DecidableEq

/-- `HalfPel::from(f32)`: `(float * 2.0).floor() as i16` of the table literal `num/den` -/
def halfPelOfLit (l : Int × Nat) : Int := (2 * l.1) / (l.2 : Int)

/-- `decode_dquant` -/
def decodeDquant : P Int := do
  let v ← readBits 8 2
  match v with
  | 0 => pure (-1)
  | 1 => pure (-2)
  | 2 => pure 1
  | _ => pure 2

/-- `decode_motion_vector` -/
def decodeMotionVector (hdr : PicHdr) (running : Nat) : P Mv :=
  if Opt.has running Opt.UNRESTRICTED_MOTION_VECTORS && hdr.hasPlusptype then do
    let x ← readUmv
    let y ← readUmv
    pure (x, y)
  else do
    let x ← readVlc Gen.MVD
    let x ← P.okOr x .invalidMvd
    let y ← readVlc Gen.MVD
    let y ← P.okOr y .invalidMvd
    pure (halfPelOfLit x, halfPelOfLit y)

/-- `decode_cbpb` (six bits; the value is discarded by the decoder) -/
def decodeCbpb : P Unit := do
  let _ ← readBits 8 1; let _ ← readBits 8 1; let _ ← readBits 8 1
  let _ ← readBits 8 1; let _ ← readBits 8 1; let _ ← readBits 8 1
  pure ()

/-- `decode_macroblock` -/
def decodeMacroblock (hdr : PicHdr) (running : Nat) : P Macroblock := do
  let isCoded ← (if hdr.picType = .iFrame then pure 0 else readBits 8 1)
  if isCoded != 0 then pure .uncoded else
  let mcbpc ← (match hdr.picType with
    | .iFrame => readVlc Gen.MCBPC_I
    | .pFrame => readVlc Gen.MCBPC_P
    | .disposableP => readVlc Gen.MCBPC_P
    | _ => P.fail .unimplemented)
  match mcbpc with
  | .stuffing => pure .stuffing
  | .invalid => P.fail .invalidMbHeader
  | .valid t ccb ccr =>
    let (hasCbpb, hasMvdb) ← (if hdr.picType = .pbFrame then readVlc Gen.MODB else pure (false, false))
    let cbpy ← readVlc Gen.CBPY
    let (l0, l1, l2, l3) ← P.okOr cbpy .invalidMbCodedBits
    let luma := if t.isIntra then (l0, l1, l2, l3) else (!l0, !l1, !l2, !l3)
    if hasCbpb then decodeCbpb else pure ()
    if Opt.has running Opt.MODIFIED_QUANTIZATION then P.fail .unimplemented else
    let dq ← (if t.hasQuantizer then do
        let d ← decodeDquant
        pure (some d)
      else pure none)
    let mv ← (if t.isInter || hdr.picType.isAnyPb then do
        let m ← decodeMotionVector hdr running
        pure (some m)
      else pure none)
    let addl ← (if t.hasFourVec then do
        let m2 ← decodeMotionVector hdr running
        let m3 ← decodeMotionVector hdr running
        let m4 ← decodeMotionVector hdr running
        pure (some (m2, m3, m4))
      else pure none)
    if hasMvdb then do
      let _ ← decodeMotionVector hdr running
      let _ ← decodeMotionVector hdr running
      let _ ← decodeMotionVector hdr running
      let _ ← decodeMotionVector hdr running
      pure ()
    else pure ()
    pure (.coded t { luma := luma, cb := ccb, cr := ccr } dq mv addl)

/-- `TCoefficient` -/
structure TCoef where
  isShort : Bool
  run : Nat
  level : Int
  deriving Repr, DecidableEq

/-- `types::Block`: INTRADC code (already validated: not 0, not 128) and the TCOEF events -/
structure Block where
  intradc : Option Nat
  tcoef : List TCoef
  deriving Repr, DecidableEq

/-- `i16::MAX << level_width` as an i16 (wrapping shift) -/
def i16MaxShl (k : Nat) : Int :=
  let v := (32767 * 2 ^ k) % 65536
  if v ≥ 32768 then (v : Int) - 65536 else v

/-- the TCOEF loop of `decode_block` (fuel: every event consumes at least one bit) -/
def tcoefLoop (d : DecOpts) (hdr : PicHdr) (running : Nat) : Nat → List TCoef → P (List TCoef)
  | 0, _ => fun _ => .fuel
  | fuel + 1, acc => do
    let s ← readVlc Gen.TCOEF
    let s ← P.okOr s .invalidShortCoef
    match s with
    | .esc =>
      let width ← (if d.sorenson && hdr.version == some 1 then do
          let f ← readBits 8 1
          pure (if f == 1 then 11 else 7)
        else pure 8)
      let last ← readBits 8 1
      let run ← readBits 8 6
      let level ← readSignedBits 16 width
      if level == 0 then P.fail .invalidLongCoef else
      if level == i16MaxShl width then
        (if Opt.has running Opt.MODIFIED_QUANTIZATION then P.fail .unimplemented else P.fail .invalidLongCoef)
      else
      let acc := acc ++ [{ isShort := false, run := run, level := level }]
      if last == 1 then pure acc else tcoefLoop d hdr running fuel acc
    | .run last run level =>
      let sign ← readBits 8 1
      let acc := acc ++ [{ isShort := true, run := run, level := if sign == 0 then (level : Int) else -(level : Int) }]
      if last then pure acc else tcoefLoop d hdr running fuel acc

/-- `IntraDc::from_u8` -/
def intraDcOfByte (v : Nat) : Option Nat := if v == 0 || v == 128 then none else some v

/-- `decode_block` -/
def decodeBlock (d : DecOpts) (hdr : PicHdr) (running : Nat) (t : MbType) (tcoefPresent : Bool) : P Block := do
  let dc ← (if t.isIntra then do
      let v ← readU8
      let dc ← P.okOr (intraDcOfByte v) .invalidIntraDc
      pure (some dc)
    else pure none)
  if tcoefPresent then fun c => (tcoefLoop d hdr running (c.bits.length + 1) [] >>= fun tc => pure { intradc := dc, tcoef := tc }) c
  else pure { intradc := dc, tcoef := [] }

end H263V.Mb
