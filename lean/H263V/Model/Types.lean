/-
Model of `h263/src/types.rs` (header-level types) and `decoder/types.rs`.
-/
import H263V.Model.Bits
namespace H263V

/-- `PixelAspectRatio` -/
inductive Par where
  | square | par12_11 | par10_11 | par16_11 | par40_33
  | reserved (code : Nat)
  | extended (w h : Nat)
  deriving Repr, DecidableEq, Inhabited

/-- `SourceFormat` -/
inductive SrcFmt where
  | subQcif | quarterCif | fullCif | fourCif | sixteenCif | reserved
  | extended (par : Par) (w h : Nat)
  deriving Repr, DecidableEq, Inhabited

/-- `SourceFormat::into_width_and_height` -/
def SrcFmt.dims : SrcFmt → Option (Nat × Nat)
  | .subQcif => some (128, 96)
  | .quarterCif => some (176, 144)
  | .fullCif => some (352, 288)
  | .fourCif => some (704, 576)
  | .sixteenCif => some (1408, 1152)
  | .reserved => none
  | .extended _ w h => some (w, h)

/-- `PictureTypeCode` -/
inductive PicType where
  | iFrame | pFrame | pbFrame | improvedPb | bFrame | eiFrame | epFrame
  | reserved (code : Nat)
  | disposableP
  deriving Repr, DecidableEq, Inhabited

def PicType.isAnyPb : PicType → Bool
  | .pbFrame | .improvedPb => true
  | _ => false
def PicType.isDisposable : PicType → Bool
  | .disposableP => true
  | _ => false

/-- `MotionVectorRange` -/
inductive MvRange where
  | extended | unlimited
  deriving Repr, DecidableEq

/-! `PictureOption` bit flags (u32) -/
namespace Opt
def USE_SPLIT_SCREEN : Nat := 0x1
def USE_DOCUMENT_CAMERA : Nat := 0x2
def RELEASE_FULL_PICTURE_FREEZE : Nat := 0x4
def UNRESTRICTED_MOTION_VECTORS : Nat := 0x8
def SYNTAX_BASED_ARITHMETIC_CODING : Nat := 0x10
def ADVANCED_PREDICTION : Nat := 0x20
def ADVANCED_INTRA_CODING : Nat := 0x40
def DEBLOCKING_FILTER : Nat := 0x80
def SLICE_STRUCTURED : Nat := 0x100
def REFERENCE_PICTURE_SELECTION : Nat := 0x200
def INDEPENDENT_SEGMENT_DECODING : Nat := 0x400
def ALTERNATIVE_INTER_VLC : Nat := 0x800
def MODIFIED_QUANTIZATION : Nat := 0x1000
def REFERENCE_PICTURE_RESAMPLING : Nat := 0x2000
def REDUCED_RESOLUTION_UPDATE : Nat := 0x4000
def ROUNDING_TYPE_ONE : Nat := 0x8000
def USE_DEBLOCKER : Nat := 0x10000
def ALL : Nat := 0x1FFFF
/-- the lazily initialised `OPPTYPE_OPTIONS` mask (same in types.rs and parser/picture.rs) -/
def OPPTYPE_OPTIONS : Nat := 0x8 ||| 0x10 ||| 0x20 ||| 0x40 ||| 0x80 ||| 0x100 ||| 0x200 ||| 0x400 ||| 0x800 ||| 0x1000
/-- the lazily initialised `MPPTYPE_OPTIONS` mask -/
def MPPTYPE_OPTIONS : Nat := 0x2000 ||| 0x4000 ||| 0x8000
/-- bitflags `!x`: complement truncated to the defined flags -/
def compl (x : Nat) : Nat := ALL ^^^ (x &&& ALL)
def has (opts flag : Nat) : Bool := opts &&& flag == flag
end Opt

/-- `DecoderOption` -/
structure DecOpts where
  sorenson : Bool
  scalability : Bool
  deriving Repr, DecidableEq, Inhabited

/-- `BPictureQuantizer` -/
inductive BQuant where
  | five | six | seven | eight
  deriving Repr, DecidableEq

/-- `types::Picture` (the parsed picture header) -/
structure PicHdr where
  version : Option Nat
  tr : Nat
  format : Option SrcFmt
  options : Nat
  hasPlusptype : Bool
  hasOpptype : Bool
  picType : PicType
  mvRange : Option MvRange
  sliceSubmode : Option Nat          -- SliceSubmode bits: RECTANGULAR_SLICES = 1, ARBITRARY_ORDER = 2
  layer : Option (Nat × Option Nat)  -- ScalabilityLayer { enhancement, reference }
  rpsMode : Option Nat               -- ReferencePictureSelectionMode bits: RESERVED=1, NACK=2, ACK=4
  predictionRef : Option Nat
  -- backchannel_message and reference_picture_resampling can only be `None` in a returned header
  quantizer : Nat
  multiplex : Option Nat
  pbReference : Option Nat
  pbQuantizer : Option BQuant
  extra : List Nat
  deriving Repr, DecidableEq

end H263V
