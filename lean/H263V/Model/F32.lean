/-
Soft model of IEEE-754 binary32 for the operations the IDCT uses: `*`, `+` (round to nearest even,
separately rounded — no FMA contraction), `/ 4.0` (exponent shift), `signum`, `as i16` (truncation).
A value is `m * 2^e` with `|m| < 2^24`.  Only the normal range is modelled: a result whose magnitude
leaves [2^-126, 2^128) sets `bad` (reported as a model gap, never observed).
-/
namespace H263V.F32

structure F where
  m : Int
  e : Int
  bad : Bool := false
  deriving Repr, BEq, Inhabited, DecidableEq

def bitlen (n : Nat) : Nat := if n = 0 then 0 else Nat.log2 n + 1

/-- round `m * 2^e` to 24 significant bits, ties to even -/
def rnd24 (m e : Int) (bad : Bool := false) : F :=
  let a := m.natAbs
  let bl := bitlen a
  let r : F :=
    if bl ≤ 24 then ⟨m, e, bad⟩ else
      let k := bl - 24
      let q := a >>> k
      let r := a - (q <<< k)
      let half := (1 : Nat) <<< (k - 1)
      let q' := if r > half || (r == half && q % 2 == 1) then q + 1 else q
      ⟨if m < 0 then -(q' : Int) else (q' : Int), e + k, bad⟩
  -- magnitude check: 2^-126 ≤ |r| < 2^128 unless zero
  let top : Int := r.e + (bitlen r.m.natAbs : Int) - 1
  if r.m != 0 && (top < -126 || top > 127) then { r with bad := true } else r

def mul (a b : F) : F := rnd24 (a.m * b.m) (a.e + b.e) (a.bad || b.bad)

def add (a b : F) : F :=
  if a.m == 0 then { b with bad := a.bad || b.bad } else if b.m == 0 then { a with bad := a.bad || b.bad } else
  let e := min a.e b.e
  rnd24 (a.m * (2 : Int) ^ (a.e - e).toNat + b.m * (2 : Int) ^ (b.e - e).toNat) e (a.bad || b.bad)

def ofInt (i : Int) : F := rnd24 i 0
def zero : F := ⟨0, 0, false⟩
/-- `x / 4.0` (exact in the normal range) -/
def quarter (a : F) : F := if a.m == 0 then a else rnd24 a.m (a.e - 2) a.bad
/-- `x.signum() * 0.5` (+0.0 has signum +1) -/
def halfSignum (a : F) : F := if a.m < 0 then ⟨-1, -1, a.bad⟩ else ⟨1, -1, a.bad⟩

/-- `x as i16` before saturation: truncation toward zero -/
def trunc (a : F) : Int :=
  if a.e ≥ 0 then a.m * (2 : Int) ^ a.e.toNat else Int.tdiv a.m ((2 : Int) ^ (-a.e).toNat)

/-- `((x) as i16).clamp(-256, 255)` -/
def toI16Clamp (a : F) : Int :=
  let v := trunc a
  if v < -256 then -256 else if v > 255 then 255 else v

end H263V.F32
