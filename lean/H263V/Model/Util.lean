/- Small parsing / printing helpers shared by the driver (import-free). -/
namespace H263V.Util

def hexDigit (c : Char) : Option Nat :=
  if '0' ≤ c ∧ c ≤ '9' then some (c.toNat - '0'.toNat)
  else if 'a' ≤ c ∧ c ≤ 'f' then some (c.toNat - 'a'.toNat + 10)
  else if 'A' ≤ c ∧ c ≤ 'F' then some (c.toNat - 'A'.toNat + 10)
  else none

/-- hex string ("-" = empty) to bytes -/
def unhex (s : String) : Option (Array Nat) :=
  if s == "-" then some #[] else
  let cs := s.toList
  let rec go : List Char → Array Nat → Option (Array Nat)
    | [], acc => some acc
    | [_], _ => none
    | a :: b :: rest, acc =>
      match hexDigit a, hexDigit b with
      | some h, some l => go rest (acc.push (h * 16 + l))
      | _, _ => none
  go cs (Array.mkEmpty (cs.length / 2))

def hexChar (n : Nat) : Char :=
  if n < 10 then Char.ofNat ('0'.toNat + n) else Char.ofNat ('a'.toNat + n - 10)

def hex (v : Array Nat) : String :=
  if v.size == 0 then "-" else
  String.ofList (v.foldr (fun b acc => hexChar (b / 16 % 16) :: hexChar (b % 16) :: acc) [])

def joinSp (xs : List String) : String := " ".intercalate xs

end H263V.Util
