/-
Model of `yuv/src/bt601.rs`: the 4-lane kernel `yuv_to_rgba_4x` (little-endian branch) and
`yuv420_to_rgba` (row loop, whole 4-pixel groups, per-row remainder path).
All numeric literals come from the regenerated `Gen.Tables`.
-/
import H263V.Model.Outcome
import H263V.Gen.Tables
namespace H263V.Yuv
open H263V

/-- i32 wrap-around (the `wide` vector types wrap silently) -/
def wrap32 (x : Int) : Int := (x + 2147483648) % 4294967296 - 2147483648

def imax (a b : Int) : Int := if a ≤ b then b else a
def imin (a b : Int) : Int := if a ≤ b then a else b

/-- arithmetic shift right of an i32 lane -/
def sar (x : Int) (k : Nat) : Int := x / (2 ^ k : Int)

/-- One lane of `yuv_to_rgba_4x`: (r, g, b, a) after clamping. -/
def lane (y cb cr : Int) : Int × Int × Int × Int :=
  let y' := wrap32 (y - Gen.YUV_Y_OFF)
  let cb' := wrap32 (cb - Gen.YUV_CB_OFF)
  let cr' := wrap32 (cr - Gen.YUV_CR_OFF)
  let gray := wrap32 (y' * Gen.YUV_C_GRAY)
  let cr2r := wrap32 (cr' * Gen.YUV_C_CR2R)
  let cr2g := wrap32 (cr' * Gen.YUV_C_CR2G)
  let cb2g := wrap32 (cb' * Gen.YUV_C_CB2G)
  let cb2b := wrap32 (cb' * Gen.YUV_C_CB2B)
  let r := sar (wrap32 (wrap32 (gray + cr2r) + Gen.YUV_HALF)) Gen.YUV_SHIFT_R
  let g := sar (wrap32 (wrap32 (wrap32 (gray + cr2g) + cb2g) + Gen.YUV_HALF)) Gen.YUV_SHIFT_G
  let b := sar (wrap32 (wrap32 (gray + cb2b) + Gen.YUV_HALF)) Gen.YUV_SHIFT_B
  (imin (imax r 0) Gen.YUV_MAXV, imin (imax g 0) Gen.YUV_MAXV, imin (imax b 0) Gen.YUV_MAXV, Gen.YUV_ALPHA)

/-- Byte `k` (0..3) of the little-endian pixel `r | g<<8 | b<<16 | a<<24`.  The OR of the shifted
channels is modelled only when the channels do not overlap (each in 0..255), which the clamp guarantees;
otherwise the model reports a gap (`none`). -/
def packByte (p : Int × Int × Int × Int) (k : Nat) : Option Nat :=
  let ok (v : Int) : Bool := decide (0 ≤ v) && decide (v ≤ 255)
  if Gen.YUV_PACK_SHIFTS = [0, 8, 16, 24] ∧ ok p.1 ∧ ok p.2.1 ∧ ok p.2.2.1 ∧ ok p.2.2.2 then
    some (match k with
      | 0 => p.1.toNat
      | 1 => p.2.1.toNat
      | 2 => p.2.2.1.toNat
      | _ => p.2.2.2.toNat)
  else none

/-- `yuv_to_rgba_4x`: lane `i` pairs `y[Y_LANES[i]]` with `cb[CB_LANES[i]]`, `cr[CR_LANES[i]]`;
output byte `4*i + k` is byte `k` of lane `i`. -/
def kernelByte (y4 : List Nat) (cb2 cr2 : List Nat) (i : Nat) : Option Nat :=
  let l := i / 4
  let yi := Gen.YUV_Y_LANES.getD l 0
  let bi := Gen.YUV_CB_LANES.getD l 0
  let ri := Gen.YUV_CR_LANES.getD l 0
  packByte (lane (y4.getD yi 0) (cb2.getD bi 0) (cr2.getD ri 0)) (i % 4)

/-- the `for x in y_width - y_remainder..y_width` loop of the remainder path:
`y[x % 4] = y_row[x]; cb[(x % 4) / 2] = cb_row[x / 2]; cr[(x % 4) / 2] = cr_row[x / 2]` -/
def remLoop (yrow cbrow crrow : Nat → Nat) : List Nat → (List Nat × List Nat × List Nat) → (List Nat × List Nat × List Nat)
  | [], acc => acc
  | x :: xs, (y4, cb2, cr2) =>
    remLoop yrow cbrow crrow xs (y4.set (x % 4) (yrow x), cb2.set ((x % 4) / 2) (cbrow (x / 2)), cr2.set ((x % 4) / 2) (crrow (x / 2)))

/-- Output byte `i` of the result (each byte is written exactly once by the Rust code: bytes of whole
4-pixel groups by the chunk loop, bytes `stride - 4*rem .. stride` of a row by the remainder path). -/
def outByte (y cb cr : Array Nat) (w : Nat) (i : Nat) : Option Nat :=
  let brw := (w + 1) / 2
  let stride := w * 4
  let row := i / stride
  let crow := row / 2
  let ib := i % stride               -- byte index inside the row
  let rem := w % 4
  if ib < stride - rem * 4 then
    -- whole group `g`: y_row[4g..4g+4], cb_row[2g..2g+2], cr_row[2g..2g+2], rgba_row[16g..16g+16]
    let g := ib / 16
    let y4 := (List.range 4).map fun j => y.getD (row * w + 4 * g + j) 0
    let cb2 := (List.range 2).map fun j => cb.getD (crow * brw + 2 * g + j) 0
    let cr2 := (List.range 2).map fun j => cr.getD (crow * brw + 2 * g + j) 0
    kernelByte y4 cb2 cr2 (ib % 16)
  else
    let (y4, cb2, cr2) := remLoop (fun x => y.getD (row * w + x) 0) (fun x => cb.getD (crow * brw + x) 0)
      (fun x => cr.getD (crow * brw + x) 0) (List.range' (w - rem) rem) ([0, 0, 0, 0], [0, 0], [0, 0])
    kernelByte y4 cb2 cr2 (ib % 16)

/-- the documented preconditions, which the function `debug_assert`s (on in the harness build) -/
def precond (y cb cr : Array Nat) (w : Nat) : Bool :=
  let brw := (w + 1) / 2
  y.size % w == 0 && cb.size % brw == 0 && cr.size % brw == 0 && cb.size == cr.size &&
    ((y.size / w + 1) / 2 == cb.size / brw)

/-- `yuv420_to_rgba` -/
def yuv420ToRgba (y cb cr : Array Nat) (w : Nat) : Out (Array Nat) :=
  if y.size = 0 then
    if cb.size = 0 ∧ cr.size = 0 then .ok #[] else .panic "debug_assert chroma empty"
  else if w = 0 then .panic "remainder by zero"
  else if !precond y cb cr w then .panic "debug_assert precondition"
  else
    match (List.range (y.size * 4)).mapM (outByte y cb cr w) with
    | some bs => .ok bs.toArray
    | none => .panic "model gap: channel outside 0..255 before packing"

end H263V.Yuv
