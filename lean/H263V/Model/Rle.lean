/-
Model of `decoder/cpu/rle.rs` (`inverse_rle`) and of `IntraDc::into_level`, and of the
`DecodedDctBlock` enum.  Coefficient values are integers (the Rust code stores them as `f32`,
all values are integers of magnitude ≤ 2048 and therefore exact).
-/
import H263V.Model.Macroblock
namespace H263V.Rle
open H263V H263V.Mb

/-- `DecodedDctBlock`; `full` is row-major `block_data[y][x]` (64 entries) -/
inductive Dct where
  | zero
  | dc (v : Int)
  | horiz (row : List Int)     -- 8 entries
  | vert (col : List Int)      -- 8 entries
  | full (d : List Int)        -- 64 entries, index 8*y + x
  deriving Repr, DecidableEq, Inhabited

/-- `IntraDc::into_level` -/
def intraDcLevel (code : Nat) : Int := if code = 255 then 1024 else (code : Int) * 8

/-- dequantisation of one coefficient: `(signum(L) * (q*(2|L|+1) + parity)).clamp(-2048, 2047)` in i32.
The only range hazards are in i32 and cannot occur for `q ≤ 255`, `|L| ≤ 32768`. -/
def dequant (q : Nat) (level : Int) : Int :=
  let a := level.natAbs
  let dq : Int := (q : Int) * (2 * (a : Int) + 1)
  let parity : Int := if q % 2 = 1 then 0 else -1
  let sg : Int := if level > 0 then 1 else if level < 0 then -1 else 0
  let v := sg * (dq + parity)
  if v < -2048 then -2048 else if v > 2047 then 2047 else v

structure RleState where
  data : List Int       -- 64 entries, 8*y + x
  isHoriz : Bool
  isVert : Bool
  zz : Nat

/-- the `for tcoef in encoded_block.tcoef.iter()` loop; `none` = the early `return` (block left untouched) -/
def rleLoop (q : Nat) : List TCoef → RleState → Option RleState
  | [], s => some s
  | t :: ts, s =>
    let zz := s.zz + t.run
    if zz ≥ 64 then none else
    let (zx, zy) := Gen.DEZIGZAG.getD zz (0, 0)
    let val := dequant q t.level
    let data := s.data.set (8 * zy + zx) val
    let isHoriz := if val != 0 && zy > 0 then false else s.isHoriz
    let isVert := if val != 0 && zx > 0 then false else s.isVert
    rleLoop q ts { data := data, isHoriz := isHoriz, isVert := isVert, zz := zz + 1 }

/-- the state the coefficient loop starts from: all zeros, or the INTRADC level at position 0 and the scan at position 1 -/
def initState (b : Block) : RleState :=
  match b.intradc with
  | some dc => { data := (List.replicate 64 (0 : Int)).set 0 (intraDcLevel dc), isHoriz := true, isVert := true, zz := 1 }
  | none => { data := List.replicate 64 0, isHoriz := true, isVert := true, zz := 0 }

/-- The new content of `levels[block_id]` (`none`: the early return, the entry keeps its old value). -/
def inverseRleBlock (b : Block) (q : Nat) : Option Dct :=
  if b.tcoef.isEmpty then
    match b.intradc with
    | some dc => if intraDcLevel dc = 0 then some .zero else some (.dc (intraDcLevel dc))
    | none => some .zero
  else
    match rleLoop q b.tcoef (initState b) with
    | none => none
    | some s =>
      match s.isHoriz, s.isVert with
      | true, true => if s.data.getD 0 0 = 0 then some .zero else some (.dc (s.data.getD 0 0))
      | true, false => some (.horiz (s.data.take 8))
      | false, true => some (.vert ((List.range 8).map fun y => s.data.getD (8 * y) 0))
      | false, false => some (.full s.data)

/-- `inverse_rle(block, levels, pos, blk_per_line, quant)` -/
def inverseRle (b : Block) (levels : Array Dct) (pos : Nat × Nat) (blkPerLine q : Nat) : Out (Array Dct) :=
  let blockId := pos.1 / 8 + (pos.2 / 8) * blkPerLine
  if blockId < levels.size then
    match inverseRleBlock b q with
    | some d => .ok (levels.set! blockId d)
    | none => .ok levels
  else .panic "index out of bounds: levels[block_id]"

end H263V.Rle
