/- Canonical printers shared with the Rust harness (same text on both sides). -/
import H263V.Model.State
import H263V.Model.Util
namespace H263V.Show
open H263V H263V.Util H263V.Gather H263V.State

def optS {α : Type} (f : α → String) : Option α → String
  | some a => f a
  | none => "-"

def parS : Par → String
  | .square => "sq" | .par12_11 => "12_11" | .par10_11 => "10_11" | .par16_11 => "16_11" | .par40_33 => "40_33"
  | .reserved r => s!"res{r}"
  | .extended w h => s!"ext{w}:{h}"

def fmtS : SrcFmt → String
  | .subQcif => "SubQcif" | .quarterCif => "QuarterCif" | .fullCif => "FullCif" | .fourCif => "FourCif"
  | .sixteenCif => "SixteenCif" | .reserved => "Reserved"
  | .extended p w h => s!"Ext({parS p},{w},{h})"

def typeS : PicType → String
  | .iFrame => "I" | .pFrame => "P" | .pbFrame => "PB" | .improvedPb => "IPB" | .bFrame => "B" | .eiFrame => "EI"
  | .epFrame => "EP" | .reserved r => s!"R{r}" | .disposableP => "D"

def hdrS (p : PicHdr) : String :=
  let mvr := match p.mvRange with | some .extended => "E" | some .unlimited => "U" | none => "-"
  let lay := match p.layer with | some (e, r) => s!"{e},{optS toString r}" | none => "-"
  let dbq := match p.pbQuantizer with | some .five => "5" | some .six => "6" | some .seven => "7" | some .eight => "8" | none => "-"
  s!"ver={optS toString p.version} tr={p.tr} fmt={optS fmtS p.format} opts={p.options} plus={if p.hasPlusptype then 1 else 0} opp={if p.hasOpptype then 1 else 0} type={typeS p.picType} mvr={mvr} sss={optS toString p.sliceSubmode} lay={lay} rpsm={optS toString p.rpsMode} trp={optS toString p.predictionRef} bcm=- rprp=- q={p.quantizer} cpm={optS toString p.multiplex} trb={optS toString p.pbReference} dbq={dbq} extra={hex p.extra.toArray}"

def fnv (data : Array Nat) : UInt64 :=
  data.foldl (fun h b => (h ^^^ (UInt64.ofNat b)) * 0x100000001b3) 0xcbf29ce484222325

def hex16 (h : UInt64) : String :=
  String.ofList ((List.range 16).map fun k => hexChar ((h.toNat / 16 ^ (15 - k)) % 16))

def picDigest (p : Option DecPic) (full : Bool) : String :=
  match p with
  | none => "-"
  | some p =>
    let (w, h) := p.fmt.dims.getD (0, 0)
    let planes := if full then s!"{hex p.luma} {hex p.cb} {hex p.cr}"
                  else s!"{hex16 (fnv p.luma)} {hex16 (fnv p.cb)} {hex16 (fnv p.cr)}"
    s!"[tr={p.hdr.tr} type={typeS p.hdr.picType} q={p.hdr.quantizer} opts={p.hdr.options} {w}x{h} n={p.luma.size},{p.cb.size},{p.cr.size} spr={p.chromaSpr} lrow={w} {planes}]"

def outS {α : Type} (o : Out α) : String :=
  match o with
  | .ok _ => "ok"
  | .err e => s!"err:{e.name}"
  | .panic _ => "PANIC"
  | .fuel => "FUEL"

end H263V.Show
