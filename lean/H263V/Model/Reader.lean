/-
Model of `parser/reader.rs`: the concrete reader — source bytes not yet fetched, the retained buffer,
`bits_read` — with every public operation following the Rust body, including `peek_bits`' per-byte
accumulation loop with its `checked_shl` / `checked_shr` corner cases.
-/
import H263V.Model.Bits
namespace H263V.Reader
open H263V

structure Rd where
  src : List Nat      -- bytes the source will still deliver
  buf : List Nat      -- `buffer`
  bitsRead : Nat
  deriving Repr, DecidableEq

/-- the bits the reader can still deliver, in order -/
def Rd.bits (r : Rd) : Bits := (bytesToBits (r.buf ++ r.src)).drop r.bitsRead

/-- `bits_read ≤ 8 * buffer.len()` -/
def Rd.WF (r : Rd) : Prop := r.bitsRead ≤ 8 * r.buf.length

/-- `buffer_bytes(n)`: one `read_exact` of a single byte at a time; bytes fetched before an EOF stay in the buffer -/
def bufferBytes : Nat → Rd → Out Unit × Rd
  | 0, r => (.ok (), r)
  | n + 1, r =>
    match r.src with
    | [] => (.err .eof, r)
    | b :: rest => bufferBytes n { r with src := rest, buf := r.buf ++ [b] }

/-- `needed_bytes_for_bits` -/
def neededBytes (r : Rd) (bitsNeeded : Nat) : Nat :=
  let avail := r.buf.length * 8 - r.bitsRead
  let short := bitsNeeded - avail
  short / 8 + (if short % 8 = 0 then 0 else 1)

/-- `ensure_bits` -/
def ensureBits (n : Nat) (r : Rd) : Out Unit × Rd := bufferBytes (neededBytes r n) r

/-- the accumulation loop of `peek_bits::<T>` for a `W`-bit `T`: `accum`, bit offset inside the first byte, bits still needed -/
def accumLoop (W : Nat) : List Nat → Nat → Nat → Nat → Nat × Nat
  | [], accum, _, needed => (accum, needed)
  | byte :: rest, accum, off, needed =>
    if needed = 0 then (accum, needed) else
    let b := (byte * 2 ^ off) % 256                 -- `byte << bits_read` on a u8
    let inByte := 8 - off
    let t := min inByte needed
    let chunk := if 8 - t ≥ 8 then 0 else b / 2 ^ (8 - t)      -- `byte.checked_shr(8 - t).unwrap_or(0)`
    let accum' := if t < W then (accum * 2 ^ t) % 2 ^ W ||| chunk else chunk   -- `accum.checked_shl(t)`
    accumLoop W rest accum' 0 (needed - t)

/-- `peek_bits::<T>(n)` -/
def peekBits (W n : Nat) (r : Rd) : Out Nat × Rd :=
  if n - 1 ≥ W then (.err .internal, r) else
  if n = 0 then (.ok 0, r) else
  match ensureBits n r with
  | (.ok _, r') =>
    let (accum, needed) := accumLoop W (r'.buf.drop (r'.bitsRead / 8)) 0 (r'.bitsRead % 8) n
    if needed = 0 then (.ok accum, r') else (.panic "return type accumulator should have been filled", r')
  | (.err e, r') => (.err e, r')
  | (.panic s, r') => (.panic s, r')
  | (.fuel, r') => (.fuel, r')

/-- `skip_bits(n)` -/
def skipBits (n : Nat) (r : Rd) : Out Unit × Rd :=
  match ensureBits n r with
  | (.ok _, r') => (.ok (), { r' with bitsRead := r'.bitsRead + n })
  | (o, r') => (o, r')

/-- `read_bits::<T>(n)` -/
def readBits (W n : Nat) (r : Rd) : Out Nat × Rd :=
  match peekBits W n r with
  | (.ok v, r') =>
    (match skipBits n r' with
     | (.ok _, r'') => (.ok v, r'')
     | (.err e, r'') => (.err e, r'')
     | (.panic s, r'') => (.panic s, r'')
     | (.fuel, r'') => (.fuel, r''))
  | (o, r') => (o, r')

/-- `peek_signed_bits::<T>(n)`: the result as the signed value of the `W`-bit pattern -/
def peekSignedBits (W n : Nat) (r : Rd) : Out Int × Rd :=
  match peekBits W n r with
  | (.ok v, r') =>
    if n = 0 then (.panic "attempt to subtract with overflow", r') else
    let signBit := v / 2 ^ (n - 1)
    if signBit ≠ 0 then
      let ext := if n < W then (2 ^ W - 1) - (2 ^ n - 1) else 0     -- `(!0).checked_shl(n).unwrap_or(0)`
      let pat := v ||| ext
      (.ok (if pat ≥ 2 ^ (W - 1) then (pat : Int) - (2 ^ W : Nat) else pat), r')
    else (.ok v, r')
  | (.err e, r') => (.err e, r')
  | (.panic s, r') => (.panic s, r')
  | (.fuel, r') => (.fuel, r')

def readSignedBits (W n : Nat) (r : Rd) : Out Int × Rd :=
  match peekSignedBits W n r with
  | (.ok v, r') =>
    (match skipBits n r' with
     | (.ok _, r'') => (.ok v, r'')
     | (.err e, r'') => (.err e, r'')
     | (.panic s, r'') => (.panic s, r'')
     | (.fuel, r'') => (.fuel, r''))
  | (o, r') => (o, r')

/-- `realignment_bits` -/
def realignmentBits (r : Rd) : Nat := (8 - r.bitsRead % 8) % 8

/-- `rollback(checkpoint)` -/
def rollback (cp : Nat) (r : Rd) : Out Unit × Rd :=
  if cp > r.buf.length * 8 then (.err .internal, r) else (.ok (), { r with bitsRead := cp })

/-- `commit()` -/
def commit (r : Rd) : Rd := { r with buf := r.buf.drop (r.bitsRead / 8), bitsRead := r.bitsRead % 8 }

def rscLoop (inError : Bool) (maxSkip : Nat) : Nat → Nat → Rd → Out (Option Nat) × Rd
  | 0, _, r => (.fuel, r)
  | fuel + 1, skip, r =>
    match peekBits 32 17 r with
    | (.ok code, r') =>
      if code = 1 then (.ok (some skip), r')
      else if !inError && skip > maxSkip then (.ok none, r')
      else match skipBits 1 r' with
        | (.ok _, r'') => rscLoop inError maxSkip fuel (skip + 1) r''
        | (.err e, r'') => (.err e, r'')
        | (.panic s, r'') => (.panic s, r'')
        | (.fuel, r'') => (.fuel, r'')
    | (.err e, r') => (.err e, r')
    | (.panic s, r') => (.panic s, r')
    | (.fuel, r') => (.fuel, r')

/-- `recognize_start_code(in_error)` (inside `with_lookahead`) -/
def recognizeStartCode (inError : Bool) (r : Rd) : Out (Option Nat) × Rd :=
  let cp := r.bitsRead
  let (res, r') := rscLoop inError (realignmentBits r) ((r.buf.length + r.src.length) * 8 + 2) 0 r
  match rollback cp r' with
  | (.ok _, r'') => (res, r'')
  | (.err e, r'') => (.err e, r'')
  | (o, r'') => (match o with | .panic s => .panic s | _ => .fuel, r'')

/-- `read_vlc(table)` -/
def vlcLoop {α : Type} (t : Array (Entry α)) : Nat → Nat → Rd → Out α × Rd
  | 0, _, r => (.fuel, r)
  | fuel + 1, idx, r =>
    match t[idx]? with
    | none => (.err .internal, r)
    | some (.fin a) => (.ok a, r)
    | some (.fork z o) =>
      match readBits 8 1 r with
      | (.ok b, r') => vlcLoop t fuel (if b = 0 then z else o) r'
      | (.err e, r') => (.err e, r')
      | (.panic s, r') => (.panic s, r')
      | (.fuel, r') => (.fuel, r')

def readVlc {α : Type} (t : Array (Entry α)) (r : Rd) : Out α × Rd := vlcLoop t (t.size + (r.buf.length + r.src.length) * 8 + 2) 0 r

end H263V.Reader
