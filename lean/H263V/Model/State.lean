/-
Model of `decoder/state.rs`: `H263State`, `get_last_picture`, `get_reference_picture`,
`cleanup_buffers`, `decode_next_picture`.
-/
import H263V.Model.Header
import H263V.Model.Idct
import H263V.Model.Gather
namespace H263V.State
open H263V H263V.Mb H263V.Mv H263V.Rle H263V.Gather

/-- `H263State`; `store` models the `HashMap<u16, DecodedPicture>` as an association list with unique keys -/
structure State where
  opts : DecOpts
  last : Option Nat
  ref : Option Nat
  running : Nat
  store : List (Nat × DecPic)
  deriving Repr, DecidableEq

def State.new (opts : DecOpts) : State := { opts := opts, last := none, ref := none, running := 0, store := [] }

def lookup (store : List (Nat × DecPic)) (k : Nat) : Option DecPic := (store.find? (·.1 == k)).map (·.2)
def insert (store : List (Nat × DecPic)) (k : Nat) (p : DecPic) : List (Nat × DecPic) :=
  (k, p) :: store.filter (·.1 != k)

/-- `get_last_picture` -/
def State.getLast (s : State) : Option DecPic := s.last.bind (lookup s.store)
/-- `get_reference_picture` -/
def State.getRef (s : State) : Option DecPic := s.ref.bind (lookup s.store)

/-- `cleanup_buffers`: only the last and the reference picture are retained -/
def State.cleanup (s : State) : State :=
  let lp := s.last.bind fun k => (lookup s.store k).map fun p => (k, p)
  let store1 := match s.last with | some k => s.store.filter (·.1 != k) | none => s.store
  let rp := s.ref.bind fun k => (lookup store1 k).map fun p => (k, p)
  let st : List (Nat × DecPic) := []
  let st := match lp with | some (k, p) => insert st k p | none => st
  let st := match rp with | some (k, p) => insert st k p | none => st
  { s with store := st }

/-- accumulated state of the macroblock loop -/
structure Loop where
  cur : Cur
  quant : Nat
  mvs : Array Mv4
  types : Array MbType
  lumaLv : Array Dct
  cbLv : Array Dct
  crLv : Array Dct

inductive Step where
  | continue (l : Loop)
  | stop (l : Loop)

/-- `quantizer = in_force_quantizer as i8 + d_quantizer.unwrap_or(0); in_force_quantizer = quantizer.clamp(1, 31) as u8` -/
def updateQuant (q : Nat) (dq : Option Int) : Out Nat :=
  let qi : Int := (q : Int) + dq.getD 0
  if q > 127 ∨ qi < -128 ∨ qi > 127 then .panic "attempt to add with overflow (i8 quantizer)" else
  .ok (if qi < 1 then 1 else if qi > 31 then 31 else qi.toNat)

/-- one coded macroblock: quantizer update, vector reconstruction, six blocks -/
def codedMb (d : DecOpts) (hdr : PicHdr) (dims : Option (Nat × Nat)) (running : Nat) (mbPerLine : Nat) (l : Loop)
    (t : MbType) (cbp : Cbp) (dq : Option Int) (mv : Option Mv) (addl : Option (Mv × Mv × Mv)) : Out Loop := do
  let q ← updateQuant l.quant dq
  let n := l.types.size
  let pos : Nat × Nat := ((n % mbPerLine) * 16, (n / mbPerLine) * 16)
  let mvs ← (if t.isInter then do
      let mv1 := mv.getD zeroMv
      let p1 ← predictCandidate l.mvs zeroMv4 mbPerLine 0
      let m0 := mvDecode hdr dims running p1 mv1
      let cur : Mv4 := (m0, zeroMv, zeroMv, zeroMv)
      match addl with
      | some (mv2, mv3, mv4) =>
        let p2 ← predictCandidate l.mvs cur mbPerLine 1
        let cur := cur.set 1 (mvDecode hdr dims running p2 mv2)
        let p3 ← predictCandidate l.mvs cur mbPerLine 2
        let cur := cur.set 2 (mvDecode hdr dims running p3 mv3)
        let p4 ← predictCandidate l.mvs cur mbPerLine 3
        let cur := cur.set 3 (mvDecode hdr dims running p4 mv4)
        pure cur
      | none => pure (m0, m0, m0, m0)
    else pure zeroMv4 : Out Mv4)
  let rd (c : Cur) (present : Bool) : Out (Block × Cur) := decodeBlock d hdr running t present c
  let (b0, c) ← rd l.cur cbp.luma.1
  let lumaLv ← inverseRle b0 l.lumaLv pos (mbPerLine * 2) q
  let (b1, c) ← rd c cbp.luma.2.1
  let lumaLv ← inverseRle b1 lumaLv (pos.1 + 8, pos.2) (mbPerLine * 2) q
  let (b2, c) ← rd c cbp.luma.2.2.1
  let lumaLv ← inverseRle b2 lumaLv (pos.1, pos.2 + 8) (mbPerLine * 2) q
  let (b3, c) ← rd c cbp.luma.2.2.2
  let lumaLv ← inverseRle b3 lumaLv (pos.1 + 8, pos.2 + 8) (mbPerLine * 2) q
  let (b4, c) ← rd c cbp.cb
  let cbLv ← inverseRle b4 l.cbLv (pos.1 / 2, pos.2 / 2) mbPerLine q
  let (b5, c) ← rd c cbp.cr
  let crLv ← inverseRle b5 l.crLv (pos.1 / 2, pos.2 / 2) mbPerLine q
  pure { cur := c, quant := q, mvs := l.mvs.push mvs, types := l.types.push t, lumaLv := lumaLv, cbLv := cbLv, crLv := crLv }

/-- one iteration of the macroblock loop -/
def mbStep (d : DecOpts) (hdr : PicHdr) (dims : Option (Nat × Nat)) (running : Nat) (mbPerLine mbTotal : Nat) (l : Loop) : Out Step :=
  if l.types.size ≥ mbTotal then .ok (.stop l) else
  if mbPerLine = 0 then .panic "remainder by zero" else
  match decodeMacroblock hdr running l.cur with
  | .ok (.stuffing, c) => .ok (.continue { l with cur := c })
  | .ok (.uncoded, c) =>
    if hdr.picType = .iFrame then .err .uncodedIFrame
    else .ok (.continue { l with cur := c, mvs := l.mvs.push zeroMv4, types := l.types.push .inter })
  | .ok (.coded t cbp dq mv addl, c) =>
    (codedMb d hdr dims running mbPerLine { l with cur := c } t cbp dq mv addl).bind fun l' => .ok (.continue l')
  | .err e =>
    if (e = .invalidMbHeader ∨ e = .invalidMbCodedBits) ∧ !d.sorenson then
      match Header.decodeGob l.cur with
      | .ok _ => .ok (.stop l)
      | .err e' => if e' = .eof ∨ e' = .invalidGobHeader then .ok (.stop l) else .err e'
      | .panic s => .panic s
      | .fuel => .fuel
    else if e = .eof then .ok (.stop l)
    else .err e
  | .panic s => .panic s
  | .fuel => .fuel

def mbLoop (d : DecOpts) (hdr : PicHdr) (dims : Option (Nat × Nat)) (running : Nat) (mbPerLine mbTotal : Nat) : Nat → Loop → Out Loop
  | 0, _ => .fuel
  | fuel + 1, l =>
    match mbStep d hdr dims running mbPerLine mbTotal l with
    | .ok (.continue l') => mbLoop d hdr dims running mbPerLine mbTotal fuel l'
    | .ok (.stop l') => .ok l'
    | .err e => .err e
    | .panic s => .panic s
    | .fuel => .fuel

/-- the in-force options computed by `decode_next_picture` -/
def nextRunning (hdr : PicHdr) (running : Nat) : Nat :=
  if hdr.hasPlusptype && hdr.hasOpptype then hdr.options
  else if hdr.hasPlusptype then
    (hdr.options &&& Opt.compl Opt.OPPTYPE_OPTIONS) ||| (running &&& Opt.OPPTYPE_OPTIONS)
  else
    (hdr.options &&& Opt.compl Opt.OPPTYPE_OPTIONS &&& Opt.compl Opt.MPPTYPE_OPTIONS) |||
      (running &&& (Opt.OPPTYPE_OPTIONS ||| Opt.MPPTYPE_OPTIONS))

/-- the batch reconstruction at the end of `decode_next_picture`: motion compensation, then the three inverse transforms -/
def reconstruct (types : Array MbType) (ref : Option DecPic) (mvs : Array Mv4) (mbPerLine w : Nat) (pic : DecPic)
    (lumaLv cbLv crLv : Array Dct) : Out DecPic := do
  let pic ← gather types ref mvs mbPerLine pic
  let luma ← Idct.idctChannel lumaLv pic.luma (mbPerLine * 2) w
  let cb ← Idct.idctChannel cbLv pic.cb mbPerLine pic.chromaSpr
  let cr ← Idct.idctChannel crLv pic.cr mbPerLine pic.chromaSpr
  pure { pic with luma := luma, cb := cb, cr := cr }

/-- Everything `decode_next_picture` does before it touches `self`: parse, reconstruct.  Reads the state only
through `opts`, `running`, `getLast` and `getRef`.  Returns the header, the finished picture, the cursor. -/
def decodeCore (s : State) (c : Cur) : Out (PicHdr × DecPic × Cur) := do
  let (ohdr, c1) ← Header.decodePicture s.opts (s.getLast.map (·.hdr)) c
  match ohdr with
  | none => .err .middleOfBitstream
  | some hdr =>
  let running := nextRunning hdr s.running
  let fmt ← (match hdr.format with
    | some f => .ok f
    | none =>
      if hdr.picType = .iFrame then .err .formatMissing
      else match s.getLast with
        | some p => .ok p.fmt
        | none => .err .formatMissing : Out SrcFmt)
  let ref := s.getRef
  match fmt.dims with
  | none => .err .formatInvalid
  | some (w, h) =>
  if w = 0 ∨ h = 0 then .err .formatInvalid else
  let mbPerLine := (w + 15) / 16
  let mbHeight := (h + 15) / 16
  match DecPic.new hdr fmt with
  | none => .err .formatInvalid
  | some pic =>
  let l0 : Loop := { cur := c1, quant := hdr.quantizer, mvs := #[], types := #[],
                     lumaLv := Array.replicate (mbPerLine * 16 * (mbHeight * 16) / 64) .zero,
                     cbLv := Array.replicate (mbPerLine * 16 * (mbHeight * 16) / 4 / 64) .zero,
                     crLv := Array.replicate (mbPerLine * 16 * (mbHeight * 16) / 4 / 64) .zero }
  let l ← mbLoop s.opts hdr (some (w, h)) running mbPerLine (mbPerLine * mbHeight) (c1.bits.length + mbPerLine * mbHeight + 2) l0
  let total := mbPerLine * mbHeight
  let mvs := if l.mvs.size < total then l.mvs ++ Array.replicate (total - l.mvs.size) zeroMv4 else l.mvs
  let types := if l.types.size < total then l.types ++ Array.replicate (total - l.types.size) MbType.inter else l.types
  let pic ← reconstruct types ref mvs mbPerLine w pic l.lumaLv l.cbLv l.crLv
  pure (hdr, pic, l.cur)

/-- The state mutation at the end of `decode_next_picture` (all of it sits after the last fallible step):
an I picture clears the reference; the picture is filed under its temporal reference (disposable pictures
under `tr | 0x8000`); it becomes the last picture and, unless disposable, the reference; then `cleanup_buffers`. -/
def commitPic (s : State) (hdr : PicHdr) (pic : DecPic) : State :=
  let ref' := if hdr.picType = .iFrame then none else s.ref
  let disp := hdr.picType.isDisposable
  let key := hdr.tr ||| (if disp then 0x8000 else 0)
  let s' : State := { s with last := some key, ref := if disp then ref' else some key, store := insert s.store key pic }
  s'.cleanup

/-- `decode_next_picture`: the new state and the advanced cursor, or an error (state and cursor unchanged) -/
def decodeNextPicture (s : State) (c : Cur) : Out (State × Cur) := do
  let (hdr, pic, c') ← decodeCore s c
  pure (commitPic s hdr pic, c')

end H263V.State
