/-
A system of decoder instances: each instance is a decoder state plus its own bit source; an
operation acts on exactly one instance.  (Rust: every `H263State` and every `H263Reader` is an owned
value; `decode_next_picture(&mut self, &mut reader)` can reach nothing else — see the structural
scan in Gen/Tables.lean for statics / interior mutability / unsafe.)
-/
import H263V.Model.State
namespace H263V.System
open H263V H263V.State

structure Inst where
  st : State
  cur : Cur
  deriving DecidableEq

inductive Op where
  | feed (bits : Bits)     -- append data to the instance's source
  | decode                 -- `decode_next_picture`
  | cleanup                -- `cleanup_buffers`
  deriving DecidableEq

/-- observable result of one operation -/
inductive Res where
  | done
  | decoded
  | failed (e : Err)
  | crashed              -- panic or fuel: never produced (C01)
  deriving DecidableEq

def step (i : Inst) (op : Op) : Inst × Res :=
  match op with
  | .feed bits => ({ i with cur := { i.cur with bits := i.cur.bits ++ bits } }, .done)
  | .cleanup => ({ i with st := i.st.cleanup }, .done)
  | .decode =>
    match decodeNextPicture i.st i.cur with
    | .ok (s', c') => ({ st := s', cur := c' }, .decoded)
    | .err e => (i, .failed e)
    | _ => (i, .crashed)

def run (i : Inst) : List Op → Inst × List Res
  | [] => (i, [])
  | op :: ops =>
    let (i', r) := step i op
    let (i'', rs) := run i' ops
    (i'', r :: rs)

/-- a system: instance number ↦ instance; a schedule: which instance performs which operation, in global order -/
def runSched (sys : Nat → Inst) : List (Nat × Op) → (Nat → Inst)
  | [] => sys
  | (k, op) :: rest => runSched (fun j => if j = k then (step (sys k) op).1 else sys j) rest

end H263V.System
