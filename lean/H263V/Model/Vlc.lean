/-
Types of the VLC tables (`parser/vlc.rs`, payload types of `parser/macroblock.rs`, `parser/block.rs`).
The tables themselves are generated from the Rust source into `Gen/Tables.lean`.
-/
namespace H263V

/-- `vlc::Entry<T>` -/
inductive Entry (α : Type) where
  | fin (a : α)
  | fork (z o : Nat)
  deriving Repr, DecidableEq

/-- `types::MacroblockType` -/
inductive MbType where
  | inter | interQ | inter4V | intra | intraQ | inter4Vq
  deriving Repr, DecidableEq, Inhabited

namespace MbType
def isInter : MbType → Bool
  | inter | interQ | inter4V | inter4Vq => true
  | _ => false
def isIntra : MbType → Bool
  | intra | intraQ => true
  | _ => false
def hasFourVec : MbType → Bool
  | inter4V | inter4Vq => true
  | _ => false
def hasQuantizer : MbType → Bool
  | interQ | intraQ | inter4Vq => true
  | _ => false
end MbType

/-- `macroblock::BlockPatternEntry` -/
inductive BPE where
  | stuffing
  | invalid
  | valid (t : MbType) (cb cr : Bool)
  deriving Repr, DecidableEq

/-- `block::ShortTCoefficient` -/
inductive TShort where
  | esc
  | run (last : Bool) (run level : Nat)
  deriving Repr, DecidableEq

end H263V
