/-
Outcomes of modelled Rust functions.  `panic` is produced exactly where the Rust code
(built with overflow checks and debug assertions) would panic; `fuel` is the
distinguished "loop ran out of fuel" outcome (§2.2 of DESIGN.md).
-/
namespace H263V

/-- The error values of `h263::Error` (I/O errors split into end-of-data / other). -/
inductive Err
  | internal | middleOfBitstream | invalidMbHeader | invalidMbCodedBits | invalidIntraDc
  | invalidShortCoef | invalidLongCoef | invalidMvd | invalidPType | invalidPlusPType
  | invalidGobHeader | invalidBitstream | formatMissing | formatInvalid | uncodedIFrame
  | eof | otherIo | unimplemented
  deriving DecidableEq, Repr, Inhabited

def Err.name : Err → String
  | .internal => "InternalDecoderError" | .middleOfBitstream => "MiddleOfBitstream"
  | .invalidMbHeader => "InvalidMacroblockHeader" | .invalidMbCodedBits => "InvalidMacroblockCodedBits"
  | .invalidIntraDc => "InvalidIntraDc" | .invalidShortCoef => "InvalidShortCoefficient"
  | .invalidLongCoef => "InvalidLongCoefficient" | .invalidMvd => "InvalidMvd"
  | .invalidPType => "InvalidPType" | .invalidPlusPType => "InvalidPlusPType"
  | .invalidGobHeader => "InvalidGobHeader" | .invalidBitstream => "InvalidBitstream"
  | .formatMissing => "PictureFormatMissing" | .formatInvalid => "PictureFormatInvalid"
  | .uncodedIFrame => "UncodedIFrameBlocks" | .eof => "Eof" | .otherIo => "OtherIo"
  | .unimplemented => "UnimplementedDecoding"

inductive Out (α : Type) where
  | ok (a : α)
  | err (e : Err)
  | panic (site : String)
  | fuel
  deriving Repr, DecidableEq

namespace Out

@[inline] def bind {α β : Type} (x : Out α) (f : α → Out β) : Out β :=
  match x with
  | ok a => f a
  | err e => err e
  | panic s => panic s
  | fuel => fuel

instance : Monad Out where
  pure := ok
  bind := bind

@[simp] theorem bind_ok {α β : Type} (a : α) (f : α → Out β) : (ok a >>= f) = f a := rfl
@[simp] theorem bind_err {α β : Type} (e : Err) (f : α → Out β) : ((err e : Out α) >>= f) = err e := rfl
@[simp] theorem bind_panic {α β : Type} (s : String) (f : α → Out β) : ((panic s : Out α) >>= f) = panic s := rfl
@[simp] theorem bind_fuel {α β : Type} (f : α → Out β) : ((fuel : Out α) >>= f) = fuel := rfl
@[simp] theorem pure_eq {α : Type} (a : α) : (pure a : Out α) = ok a := rfl

def isOk {α : Type} : Out α → Bool
  | ok _ => true
  | _ => false

/-- Neither a panic nor a fuel exhaustion: the call returned a value or an error value. -/
def returns {α : Type} : Out α → Bool
  | ok _ => true
  | err _ => true
  | _ => false

end Out
end H263V
