/-
Reader operation scripts (C14): an inductive type of operations with nested transaction / look-ahead
combinators, a parser for the line protocol, and two interpreters — over the concrete reader model
(`Reader.Rd`) and over the bit-cursor specification machine (`Cur`).
-/
import H263V.Model.Reader
namespace H263V.Script
open H263V

inductive Op where
  | pk (n : Nat) | rd (n : Nat) | sk (n : Nat) | ps (n : Nat) | rs (n : Nat)
  | sc (inError : Bool) | cm | vl (k : Nat)
  | tx (body : List Op) (fail : Bool)          -- with_transaction; the closure finally returns Err iff `fail`
  | tu (body : List Op) (mode : Nat)           -- with_transaction_union; 0 = Ok(Some), 1 = Ok(None), 2 = Err
  | la (body : List Op)                        -- with_lookahead
  deriving Repr, Inhabited

/-- three fixed test tables for `read_vlc`: a small prefix code, a table with a dangling index, a single leaf -/
def table (k : Nat) : Array (Entry Nat) :=
  match k with
  | 0 => #[.fork 1 2, .fin 10, .fork 3 4, .fin 20, .fork 5 6, .fin 30, .fin 40]
  | 1 => #[.fork 1 9, .fin 1]
  | _ => #[.fin 5]

/-! ### parser: ops separated by `;`, bodies in parentheses -/

partial def parseOps (cs : List Char) : List Op × List Char :=
  let rec num (cs : List Char) (acc : Nat) : Nat × List Char :=
    match cs with
    | c :: rest => if c.isDigit then num rest (acc * 10 + (c.toNat - '0'.toNat)) else (acc, cs)
    | [] => (acc, [])
  let rec go (cs : List Char) (acc : List Op) : List Op × List Char :=
    match cs with
    | [] => (acc.reverse, [])
    | ')' :: _ => (acc.reverse, cs)
    | ';' :: rest => go rest acc
    | 'p' :: 'k' :: rest => let (n, r) := num rest 0; go r (.pk n :: acc)
    | 'r' :: 'd' :: rest => let (n, r) := num rest 0; go r (.rd n :: acc)
    | 's' :: 'k' :: rest => let (n, r) := num rest 0; go r (.sk n :: acc)
    | 'p' :: 's' :: rest => let (n, r) := num rest 0; go r (.ps n :: acc)
    | 'r' :: 's' :: rest => let (n, r) := num rest 0; go r (.rs n :: acc)
    | 's' :: 'c' :: rest => let (n, r) := num rest 0; go r (.sc (n != 0) :: acc)
    | 'c' :: 'm' :: rest => go rest (.cm :: acc)
    | 'v' :: 'l' :: rest => let (n, r) := num rest 0; go r (.vl n :: acc)
    | 't' :: 'x' :: '(' :: rest =>
      let (body, r) := parseOps rest
      (match r with
       | ')' :: 'o' :: 'k' :: r' => go r' (.tx body false :: acc)
       | ')' :: 'f' :: 'a' :: 'i' :: 'l' :: r' => go r' (.tx body true :: acc)
       | _ => (acc.reverse, []))
    | 't' :: 'u' :: '(' :: rest =>
      let (body, r) := parseOps rest
      (match r with
       | ')' :: 's' :: 'o' :: 'm' :: 'e' :: r' => go r' (.tu body 0 :: acc)
       | ')' :: 'n' :: 'o' :: 'n' :: 'e' :: r' => go r' (.tu body 1 :: acc)
       | ')' :: 'f' :: 'a' :: 'i' :: 'l' :: r' => go r' (.tu body 2 :: acc)
       | _ => (acc.reverse, []))
    | 'l' :: 'a' :: '(' :: rest =>
      let (body, r) := parseOps rest
      (match r with
       | ')' :: r' => go r' (.la body :: acc)
       | _ => (acc.reverse, []))
    | _ :: rest => go rest acc
  go cs []

def showOut {α : Type} (f : α → String) : Out α → String
  | .ok a => "=" ++ f a
  | .err e => "!" ++ e.name
  | .panic _ => "PANIC"
  | .fuel => "FUEL"

def isFail {α : Type} : Out α → Bool
  | .ok _ => false
  | _ => true

/-! ### interpreter over the concrete reader -/

mutual
  /-- run one op; returns the printed results, whether the op failed, the reader -/
  def runOpR (W : Nat) (op : Op) (r : Reader.Rd) : List String × Bool × Reader.Rd :=
    match op with
    | .pk n => let (o, r') := Reader.peekBits W n r; ([showOut toString o], isFail o, r')
    | .rd n => let (o, r') := Reader.readBits W n r; ([showOut toString o], isFail o, r')
    | .sk n => let (o, r') := Reader.skipBits n r; ([showOut (fun _ => "") o], isFail o, r')
    | .ps n => let (o, r') := Reader.peekSignedBits W n r; ([showOut toString o], isFail o, r')
    | .rs n => let (o, r') := Reader.readSignedBits W n r; ([showOut toString o], isFail o, r')
    | .sc e => let (o, r') := Reader.recognizeStartCode e r
               ([showOut (fun x => match x with | some k => toString k | none => "none") o], isFail o, r')
    | .cm => (["=cm"], false, Reader.commit r)
    | .vl k => let (o, r') := Reader.readVlc (table k) r; ([showOut toString o], isFail o, r')
    | .tx body fail =>
      let cp := r.bitsRead
      let (outs, failed, r') := runBodyR W body r
      if failed || fail then
        match Reader.rollback cp r' with
        | (.ok _, r'') => (outs ++ ["tx-err"], true, r'')
        | (_, r'') => (outs ++ ["tx-rollback-failed"], true, r'')
      else (outs ++ ["tx-ok"], false, r')
    | .tu body mode =>
      let cp := r.bitsRead
      let (outs, failed, r') := runBodyR W body r
      if failed || mode != 0 then
        match Reader.rollback cp r' with
        | (.ok _, r'') => (outs ++ [if failed || mode == 2 then "tu-err" else "tu-none"], failed || mode == 2, r'')
        | (_, r'') => (outs ++ ["tu-rollback-failed"], true, r'')
      else (outs ++ ["tu-some"], false, r')
    | .la body =>
      let cp := r.bitsRead
      let (outs, failed, r') := runBodyR W body r
      match Reader.rollback cp r' with
      | (.ok _, r'') => (outs ++ [if failed then "la-err" else "la-ok"], failed, r'')
      | (_, r'') => (outs ++ ["la-rollback-failed"], true, r'')

  /-- a closure body: stops at the first failing op (`?`) -/
  def runBodyR (W : Nat) (ops : List Op) (r : Reader.Rd) : List String × Bool × Reader.Rd :=
    match ops with
    | [] => ([], false, r)
    | op :: rest =>
      let (o, failed, r') := runOpR W op r
      if failed then (o, true, r') else
      let (o2, f2, r'') := runBodyR W rest r'
      (o ++ o2, f2, r'')
end

def runTopR (W : Nat) (ops : List Op) (r : Reader.Rd) : List String × Reader.Rd :=
  ops.foldl (fun (acc : List String × Reader.Rd) op =>
    let (o, _, r') := runOpR W op acc.2
    (acc.1 ++ o, r')) ([], r)

/-! ### interpreter over the specification machine (bit cursor): errors restore nothing because nothing was changed -/

/-- a sign-extended `n`-bit value as the signed value of a `W`-bit pattern (identity for n ≤ W) -/
def wrapW (_W : Nat) (v : Int) : Int := v


def lift {α : Type} (show_ : α → String) (p : P α) (c : Cur) : List String × Bool × Cur :=
  match p c with
  | .ok (a, c') => (["=" ++ show_ a], false, c')
  | .err e => (["!" ++ e.name], true, c)
  | .panic _ => (["PANIC"], true, c)
  | .fuel => (["FUEL"], true, c)

mutual
  def runOpS (W : Nat) (op : Op) (c : Cur) : List String × Bool × Cur :=
    match op with
    | .pk n => (match H263V.peekBits W n c with
                | .ok v => (["=" ++ toString v], false, c)
                | .err e => (["!" ++ e.name], true, c)
                | _ => (["PANIC"], true, c))
    | .rd n => lift toString (H263V.readBits W n) c
    | .sk n => lift (fun _ => "") (H263V.skipBits n) c
    | .ps n => (match H263V.readSignedBits W n c with
                | .ok (v, _) => (["=" ++ toString (wrapW W v)], false, c)
                | .err e => (["!" ++ e.name], true, c)
                | _ => (["PANIC"], true, c))
    | .rs n => lift (fun v => toString (wrapW W v)) (H263V.readSignedBits W n) c
    | .sc e => lift (fun x => match x with | some k => toString k | none => "none") (H263V.recognizeStartCode e) c
    | .cm => (["=cm"], false, { c with pos := c.pos % 8 })
    | .vl k =>
      -- a bare failed `read_vlc` keeps the bits it consumed before failing (documented: "the position of the
      -- bitstream is undefined"); inside a transaction the enclosing combinator restores the position
      let rec walk (t : Array (Entry Nat)) (idx : Nat) (bits : Bits) (used : Nat) (fuel : Nat) : Out Nat × Bits × Nat :=
        match fuel with
        | 0 => (.fuel, bits, used)
        | fuel + 1 =>
          match t[idx]? with
          | none => (.err .internal, bits, used)
          | some (.fin a) => (.ok a, bits, used)
          | some (.fork z o) =>
            match bits with
            | [] => (.err .eof, bits, used)
            | b :: bs => walk t (if b then o else z) bs (used + 1) fuel
      let (o, bits', used) := walk (table k) 0 c.bits 0 (c.bits.length + (table k).size + 2)
      ([showOut toString o], isFail o, { bits := bits', pos := c.pos + used })
    | .tx body fail =>
      let (outs, failed, c') := runBodyS W body c
      if failed || fail then (outs ++ ["tx-err"], true, c) else (outs ++ ["tx-ok"], false, c')
    | .tu body mode =>
      let (outs, failed, c') := runBodyS W body c
      if failed || mode != 0 then (outs ++ [if failed || mode == 2 then "tu-err" else "tu-none"], failed || mode == 2, c)
      else (outs ++ ["tu-some"], false, c')
    | .la body =>
      let (outs, failed, _) := runBodyS W body c
      (outs ++ [if failed then "la-err" else "la-ok"], failed, c)
  def runBodyS (W : Nat) (ops : List Op) (c : Cur) : List String × Bool × Cur :=
    match ops with
    | [] => ([], false, c)
    | op :: rest =>
      let (o, failed, c') := runOpS W op c
      if failed then (o, true, c') else
      let (o2, f2, c'') := runBodyS W rest c'
      (o ++ o2, f2, c'')
end

def runTopS (W : Nat) (ops : List Op) (c : Cur) : List String × Cur :=
  ops.foldl (fun (acc : List String × Cur) op =>
    let (o, _, c') := runOpS W op acc.2
    (acc.1 ++ o, c')) ([], c)

end H263V.Script
