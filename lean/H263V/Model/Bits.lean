/-
The bit cursor: what the parsers above `H263Reader` see of it.  The remaining bits as a list
(first = next bit to be read) and the absolute bit position (only `pos % 8`, the alignment phase,
is ever used).  `Reader.lean` models the concrete reader (byte buffer + bits_read) and Thm/C14
proves that every reader operation refines the corresponding cursor operation.

A parser `P α` returns a value and the advanced cursor, or an error.  An error carries no cursor:
every parser function of the code base runs inside `with_transaction`, which restores the position
on error, so the caller simply keeps the cursor it had.
-/
import H263V.Model.Outcome
import H263V.Model.Vlc
namespace H263V

abbrev Bits := List Bool

structure Cur where
  bits : Bits
  pos : Nat
  deriving Repr, DecidableEq

/-- MSB-first value of a bit list -/
def ofBits (bs : Bits) : Nat := bs.foldl (fun a b => 2 * a + (if b then 1 else 0)) 0

def P (α : Type) := Cur → Out (α × Cur)

namespace P
@[inline] def pure {α : Type} (a : α) : P α := fun c => .ok (a, c)
@[inline] def bind {α β : Type} (p : P α) (f : α → P β) : P β := fun c =>
  match p c with
  | .ok (a, c') => f a c'
  | .err e => .err e
  | .panic s => .panic s
  | .fuel => .fuel
instance : Monad P where
  pure := P.pure
  bind := P.bind
@[inline] def fail {α : Type} (e : Err) : P α := fun _ => .err e
@[inline] def panic {α : Type} (s : String) : P α := fun _ => .panic s
@[inline] def get : P Cur := fun c => .ok (c, c)
/-- `Option::ok_or(e)?` -/
@[inline] def okOr {α : Type} (o : Option α) (e : Err) : P α :=
  match o with
  | some a => P.pure a
  | none => P.fail e
end P

/-- `peek_bits::<T>(n)` for a `W`-bit `T` -/
def peekBits (W n : Nat) (c : Cur) : Out Nat :=
  if n > W then .err .internal
  else if n = 0 then .ok 0
  else if c.bits.length < n then .err .eof
  else .ok (ofBits (c.bits.take n))

/-- `skip_bits(n)` -/
def skipBits (n : Nat) : P Unit := fun c =>
  if c.bits.length < n then .err .eof else .ok ((), ⟨c.bits.drop n, c.pos + n⟩)

/-! Compiled code only: the end-of-data tests above walk the whole remaining list (`length`); the equal formulations below look at
the first `n` bits only.  `@[csimp]` makes the compiler use them — each is proved equal to the definition it replaces (kernel-checked;
this is not `implemented_by`), so the driver runs the model as defined, only faster on long inputs. -/

def peekBitsFast (W n : Nat) (c : Cur) : Out Nat :=
  if n > W then .err .internal
  else if n = 0 then .ok 0
  else
    let t := c.bits.take n
    if t.length < n then .err .eof else .ok (ofBits t)

@[csimp] theorem peekBits_eq_fast : @peekBits = @peekBitsFast := by
  funext W n c
  unfold peekBits peekBitsFast
  simp only [List.length_take]
  by_cases h1 : n > W
  · simp [h1]
  · by_cases h2 : n = 0
    · simp [h1, h2]
    · simp only [h1, h2, ↓reduceIte]
      by_cases h3 : c.bits.length < n
      · rw [if_pos h3, if_pos (by omega)]
      · rw [if_neg h3, if_neg (by omega)]

def skipBitsFast (n : Nat) : P Unit := fun c =>
  if (c.bits.take n).length < n then .err .eof else .ok ((), ⟨c.bits.drop n, c.pos + n⟩)

@[csimp] theorem skipBits_eq_fast : @skipBits = @skipBitsFast := by
  funext n c
  unfold skipBits skipBitsFast
  simp only [List.length_take]
  by_cases h3 : c.bits.length < n
  · rw [if_pos h3, if_pos (by omega)]
  · rw [if_neg h3, if_neg (by omega)]

/-- `read_bits::<T>(n)` -/
def readBits (W n : Nat) : P Nat := fun c =>
  match peekBits W n c with
  | .ok v => (skipBits n c).bind fun (_, c') => .ok (v, c')
  | .err e => .err e
  | .panic s => .panic s
  | .fuel => .fuel

/-- two's complement reading of an `n`-bit field (1 ≤ n) -/
def signExtend (n v : Nat) : Int := if v ≥ 2 ^ (n - 1) then (v : Int) - (2 ^ n : Nat) else v

/-- `read_signed_bits::<T>(n)` for a `W`-bit `T`, result as the signed value of the `W`-bit pattern -/
def readSignedBits (W n : Nat) : P Int := fun c =>
  match peekBits W n c with
  | .ok v =>
    if n = 0 then .panic "attempt to subtract with overflow (bits_needed - 1)"
    else (skipBits n c).bind fun (_, c') => .ok (signExtend n v, c')
  | .err e => .err e
  | .panic s => .panic s
  | .fuel => .fuel

def readU8 : P Nat := readBits 8 8

/-- `realignment_bits()` -/
def realignmentBits (c : Cur) : Nat := (8 - c.pos % 8) % 8

def rscLoop (inError : Bool) (maxSkip : Nat) : Nat → Nat → Cur → Out (Option Nat)
  | 0, _, _ => .fuel
  | fuel + 1, skip, c =>
    match peekBits 32 17 c with
    | .ok code =>
      if code = 1 then .ok (some skip)
      else if !inError && skip > maxSkip then .ok none
      else match skipBits 1 c with
        | .ok (_, c') => rscLoop inError maxSkip fuel (skip + 1) c'
        | .err e => .err e
        | .panic s => .panic s
        | .fuel => .fuel
    | .err e => .err e
    | .panic s => .panic s
    | .fuel => .fuel

/-- `recognize_start_code(in_error)`: a look-ahead, the cursor does not move -/
def recognizeStartCode (inError : Bool) : P (Option Nat) := fun c =>
  match rscLoop inError (realignmentBits c) (c.bits.length + 2) 0 c with
  | .ok r => .ok (r, c)
  | .err e => .err e
  | .panic s => .panic s
  | .fuel => .fuel

/-- `read_vlc(table)`: structural recursion on the remaining bits -/
def vlcWalk {α : Type} (t : Array (Entry α)) : Nat → Bits → Nat → Out (α × Bits × Nat)
  | idx, bits, used =>
    match t[idx]? with
    | none => .err .internal
    | some (.fin a) => .ok (a, bits, used)
    | some (.fork z o) =>
      match bits with
      | [] => .err .eof
      | b :: bs => vlcWalk t (if b then o else z) bs (used + 1)

def readVlc {α : Type} (t : Array (Entry α)) : P α := fun c =>
  match vlcWalk t 0 c.bits 0 with
  | .ok (a, rest, used) => .ok (a, ⟨rest, c.pos + used⟩)
  | .err e => .err e
  | .panic s => .panic s
  | .fuel => .fuel

/-- `read_umv()`: H.263 table D.3 -/
def umvLoop : Nat → Nat → Nat → P Int
  | 0, _, _ => P.fail .invalidMvd
  | fuel + 1, mantissa, bulk =>
    if bulk < 4096 then do
      let v ← readBits 8 2
      match v with
      | 0 => pure ((mantissa + bulk : Nat) : Int)
      | 2 => pure (-((mantissa + bulk : Nat) : Int))
      | 1 => umvLoop fuel (mantissa * 2) (bulk * 2)
      | _ => umvLoop fuel (mantissa * 2 + 1) (bulk * 2)
    else P.fail .invalidMvd

def readUmv : P Int := do
  let start ← readBits 8 1
  if start = 1 then pure 0 else umvLoop 13 0 1

/-- `with_transaction_union`: `Ok(None)` restores the position -/
def transactionUnion {α : Type} (p : P (Option α)) : P (Option α) := fun c =>
  match p c with
  | .ok (none, _) => .ok (none, c)
  | r => r

def bytesToBits (bs : List Nat) : Bits :=
  bs.flatMap fun b => (List.range 8).map fun k => (b / 2 ^ (7 - k)) % 2 == 1

end H263V
