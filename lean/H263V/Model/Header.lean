/-
Model of `h263/src/parser/picture.rs` and `parser/gob.rs`: every `decode_*` function with the same
order of reads.  (Each Rust function is wrapped in `with_transaction`, which at cursor level is the
identity: an error never carries a cursor.)
-/
import H263V.Model.Types
namespace H263V.Header
open H263V

def setIf (c : Bool) (flag opts : Nat) : Nat := if c then opts ||| flag else opts
def bit (v mask : Nat) : Bool := v &&& mask != 0

/-- `decode_ptype`: options and, unless a PLUSPTYPE follows, (format, type) -/
def decodePtype : P (Nat × Option (SrcFmt × PicType)) := do
  let high ← readU8
  if high &&& 0xC0 != 0x80 then P.fail .invalidPType else
  let o := setIf (bit high 0x20) Opt.USE_SPLIT_SCREEN 0
  let o := setIf (bit high 0x10) Opt.USE_DOCUMENT_CAMERA o
  let o := setIf (bit high 0x08) Opt.RELEASE_FULL_PICTURE_FREEZE o
  let fmt : Option (Option SrcFmt) := match high &&& 0x07 with
    | 0 => none
    | 1 => some (some .subQcif)
    | 2 => some (some .quarterCif)
    | 3 => some (some .fullCif)
    | 4 => some (some .fourCif)
    | 5 => some (some .sixteenCif)
    | 6 => some (some .reserved)
    | _ => some none
  match fmt with
  | none => P.fail .invalidPType
  | some none => pure (o, none)
  | some (some f) =>
    let low ← readBits 8 5
    let t : PicType := if bit low 0x10 then .pFrame else .iFrame
    let o := setIf (bit low 0x08) Opt.UNRESTRICTED_MOTION_VECTORS o
    let o := setIf (bit low 0x04) Opt.SYNTAX_BASED_ARITHMETIC_CODING o
    let o := setIf (bit low 0x02) Opt.ADVANCED_PREDICTION o
    let t : PicType := if bit low 0x01 then .pbFrame else t
    pure (o, some (f, t))

/-- `PlusPTypeFollower` flags -/
structure Followers where
  customFormat : Bool := false
  customClock : Bool := false
  mvRange : Bool := false
  sliceSubmode : Bool := false
  refLayer : Bool := false
  rpsMode : Bool := false
  deriving Repr, DecidableEq

/-- `decode_plusptype` -/
def decodePlusptype (d : DecOpts) (prevOptions : Nat) : P (Nat × Option SrcFmt × PicType × Followers × Bool) := do
  let ufep ← readBits 8 3
  if ufep ≥ 2 then P.fail .invalidPlusPType else
  let hasOpp := ufep == 1
  let (o, fol, fmt) ← (if hasOpp then do
      let opp ← readBits 32 18
      if opp &&& 0xF != 0x8 then P.fail .invalidPlusPType else
      let sf := (opp &&& 0x38000) >>> 15
      let fmt : Option SrcFmt := match sf with
        | 0 => some .reserved
        | 1 => some .subQcif
        | 2 => some .quarterCif
        | 3 => some .fullCif
        | 4 => some .fourCif
        | 5 => some .sixteenCif
        | 6 => none
        | _ => some .reserved
      let fol : Followers := { customFormat := sf == 6, customClock := bit opp 0x04000, mvRange := bit opp 0x02000,
                               sliceSubmode := bit opp 0x00100, rpsMode := bit opp 0x00080, refLayer := d.scalability }
      let o := setIf (bit opp 0x02000) Opt.UNRESTRICTED_MOTION_VECTORS 0
      let o := setIf (bit opp 0x01000) Opt.SYNTAX_BASED_ARITHMETIC_CODING o
      let o := setIf (bit opp 0x00800) Opt.ADVANCED_PREDICTION o
      let o := setIf (bit opp 0x00400) Opt.ADVANCED_INTRA_CODING o
      let o := setIf (bit opp 0x00200) Opt.DEBLOCKING_FILTER o
      let o := setIf (bit opp 0x00100) Opt.SLICE_STRUCTURED o
      let o := setIf (bit opp 0x00080) Opt.REFERENCE_PICTURE_SELECTION o
      let o := setIf (bit opp 0x00040) Opt.INDEPENDENT_SEGMENT_DECODING o
      let o := setIf (bit opp 0x00020) Opt.ALTERNATIVE_INTER_VLC o
      let o := setIf (bit opp 0x00010) Opt.MODIFIED_QUANTIZATION o
      pure (o, fol, fmt)
    else
      pure (prevOptions &&& Opt.OPPTYPE_OPTIONS, ({} : Followers), (none : Option SrcFmt)))
  let mpp ← readBits 16 9
  if mpp &&& 0x007 != 0x1 then P.fail .invalidPlusPType else
  let t : PicType := match (mpp &&& 0x1C0) >>> 6 with
    | 0 => .iFrame
    | 1 => .pFrame
    | 2 => .improvedPb
    | 3 => .bFrame
    | 4 => .eiFrame
    | 5 => .epFrame
    | r => .reserved r
  let o := setIf (bit mpp 0x020) Opt.REFERENCE_PICTURE_RESAMPLING o
  let o := setIf (bit mpp 0x010) Opt.REDUCED_RESOLUTION_UPDATE o
  let o := setIf (bit mpp 0x008) Opt.ROUNDING_TYPE_ONE o
  pure (o, fmt, t, fol, hasOpp)

/-- `decode_sorenson_ptype` -/
def decodeSorensonPtype : P (SrcFmt × PicType × Nat) := do
  let code ← readBits 8 3
  let fmt ← (match code with
    | 0 => do
      let w ← readBits 16 8
      let h ← readBits 16 8
      pure (SrcFmt.extended .square w h)
    | 1 => do
      let w ← readBits 16 16
      let h ← readBits 16 16
      pure (SrcFmt.extended .square w h)
    | 2 => pure .fullCif
    | 3 => pure .quarterCif
    | 4 => pure .subQcif
    | 5 => pure (SrcFmt.extended .square 320 240)
    | 6 => pure (SrcFmt.extended .square 160 120)
    | _ => pure .reserved : P SrcFmt)
  let tc ← readBits 8 2
  let t : PicType := match tc with
    | 0 => .iFrame
    | 1 => .pFrame
    | 2 => .disposableP
    | r => .reserved r
  let db ← readBits 8 1
  pure (fmt, t, if db == 1 then Opt.USE_DEBLOCKER else 0)

/-- `decode_cpm_and_psbi` -/
def decodeCpmPsbi : P (Option Nat) := do
  let cpm ← readBits 8 1
  if cpm != 0 then do
    let psbi ← readBits 8 2
    pure (some psbi)
  else pure none

/-- `decode_cpfmt` -/
def decodeCpfmt : P SrcFmt := do
  let v ← readBits 32 23
  if v &&& 0x000200 == 0 then P.fail .formatInvalid else
  let parCode := (v &&& 0x780000) >>> 19
  let par ← (match parCode with
    | 0 => P.fail .formatInvalid
    | 1 => pure Par.square
    | 2 => pure Par.par12_11
    | 3 => pure Par.par10_11
    | 4 => pure Par.par16_11
    | 5 => pure Par.par40_33
    | 15 => do
      let pw ← readU8
      let ph ← readU8
      if pw == 0 || ph == 0 then P.fail .formatInvalid else pure (Par.extended pw ph)
    | r => pure (Par.reserved r) : P Par)
  let w := (((v &&& 0x07FC00) >>> 10) + 1) * 4
  let h := (v &&& 0x0001FF) * 4
  pure (.extended par w h)

/-- `decode_cpcfc`: (times_1001, divisor) -/
def decodeCpcfc : P (Bool × Nat) := do
  let v ← readU8
  pure (bit v 0x80, v &&& 0x7F)

/-- `decode_uui` -/
def decodeUui : P MvRange := do
  let a ← readBits 8 1
  if a == 1 then pure .extended else do
    let b ← readBits 8 1
    if b == 1 then pure .unlimited else P.fail .invalidBitstream

/-- `decode_sss` -/
def decodeSss : P Nat := do
  let v ← readBits 8 2
  pure (setIf (bit v 0x01) 2 (setIf (bit v 0x02) 1 0))

/-- `decode_elnum_rlnum` -/
def decodeElnumRlnum (fol : Followers) : P (Nat × Option Nat) := do
  let e ← readBits 8 4
  if fol.refLayer then do
    let r ← readBits 8 4
    pure (e, some r)
  else pure (e, none)

/-- `decode_rpsmf` -/
def decodeRpsmf : P Nat := do
  let v ← readBits 8 3
  pure (setIf (bit v 0x1) 4 (setIf (bit v 0x2) 2 (setIf (!(bit v 0x4)) 1 0)))

/-- `decode_trpi` -/
def decodeTrpi : P (Option Nat) := do
  let t ← readBits 8 1
  if t == 1 then do
    let trp ← readBits 16 10
    pure (some trp)
  else pure none

/-- `decode_bcm`: `Ok(None)` or an error -/
def decodeBcm : P Unit := do
  let bci ← readBits 8 1
  if bci == 1 then P.fail .unimplemented else do
    let nb ← readBits 8 1
    if nb == 1 then pure () else P.fail .invalidBitstream

/-- `decode_trb` -/
def decodeTrb (customClock : Bool) : P Nat := if customClock then readBits 8 5 else readBits 8 3

/-- `decode_dbquant` -/
def decodeDbquant : P BQuant := do
  let v ← readBits 8 2
  match v with
  | 0 => pure .five
  | 1 => pure .six
  | 2 => pure .seven
  | _ => pure .eight

/-- `decode_pei` (fuel: every iteration consumes at least one bit) -/
def peiLoop : Nat → List Nat → P (List Nat)
  | 0, _ => fun _ => .fuel
  | fuel + 1, acc => do
    let has ← readBits 8 1
    if has == 1 then do
      let b ← readU8
      peiLoop fuel (acc ++ [b])
    else pure acc

def decodePei : P (List Nat) := fun c => peiLoop (c.bits.length + 1) [] c

/-- `previous_picture.map(|p| p.options).unwrap_or_else(PictureOption::empty)` -/
def prevOptions (prev : Option PicHdr) : Nat := match prev with | some p => p.options | none => 0

/-- the format of the previous picture differs from this header's (then reference picture resampling parameters must follow) -/
def formatChanged (prev : Option PicHdr) (fmt : Option SrcFmt) : Bool :=
  match prev with | some p => p.format.isSome && fmt.isSome && p.format != fmt | none => false

/-- `decode_picture` -/
def decodePicture (d : DecOpts) (prev : Option PicHdr) : P (Option PicHdr) :=
  transactionUnion (do
    let skipped ← recognizeStartCode false
    let skipped ← P.okOr skipped .middleOfBitstream
    skipBits (17 + skipped)
    let gobId ← readBits 8 5
    if d.sorenson then do
      let tr ← readU8
      let (fmt, t, o) ← decodeSorensonPtype
      let q ← readBits 8 5
      let extra ← decodePei
      pure (some { version := some gobId, tr := tr, format := some fmt, options := o, hasPlusptype := false,
                   hasOpptype := false, picType := t, mvRange := some .unlimited, sliceSubmode := none, layer := none,
                   rpsMode := none, predictionRef := none, quantizer := q, multiplex := none, pbReference := none,
                   pbQuantizer := none, extra := extra })
    else if gobId != 0 then pure none
    else do
      let lowTr ← readU8
      let (o, ft) ← decodePtype
      let (o, fmt, t, fol, hasPlus, hasOpp, mux) ← (match ft with
        | some (f, t) => pure (o, some f, t, ({} : Followers), false, false, (none : Option (Option Nat)))
        | none => do
          let (eo, mf, t, fol, hasOpp) ← decodePlusptype d (prevOptions prev)
          let mux ← decodeCpmPsbi
          pure (o ||| eo, mf, t, fol, true, hasOpp, some mux))
      let fmt ← (if fol.customFormat then do
          let f ← decodeCpfmt
          pure (some f)
        else pure fmt)
      let clock ← (if fol.customClock then do
          let c ← decodeCpcfc
          pure (some c)
        else pure none)
      let tr ← (if clock.isSome then do
          let hi ← readBits 16 2
          pure ((hi <<< 8) ||| lowTr)
        else pure lowTr)
      let mvr ← (if fol.mvRange then do
          let r ← decodeUui
          pure (some r)
        else pure none)
      let sss ← (if fol.sliceSubmode then do
          let s ← decodeSss
          pure (some s)
        else pure none)
      let layer ← (if d.scalability then do
          let l ← decodeElnumRlnum fol
          pure (some l)
        else pure none)
      let rps ← (if fol.rpsMode then do
          let r ← decodeRpsmf
          pure (some r)
        else pure none)
      let predRef ← (if Opt.has o Opt.REFERENCE_PICTURE_SELECTION then decodeTrpi else pure none)
      if Opt.has o Opt.REFERENCE_PICTURE_SELECTION then decodeBcm else pure ()
      -- decode_rprp is a stub that always fails
      if Opt.has o Opt.REFERENCE_PICTURE_RESAMPLING || formatChanged prev fmt
        then P.fail .unimplemented else pure ()
      let q ← readBits 8 5
      let mux ← (match mux with
        | some m => pure m
        | none => decodeCpmPsbi)
      let (trb, dbq) ← (if t.isAnyPb then do
          let a ← decodeTrb clock.isSome
          let b ← decodeDbquant
          pure (some a, some b)
        else pure (none, none))
      let extra ← decodePei
      pure (some { version := none, tr := tr, format := fmt, options := o, hasPlusptype := hasPlus, hasOpptype := hasOpp,
                   picType := t, mvRange := mvr, sliceSubmode := sss, layer := layer, rpsMode := rps,
                   predictionRef := predRef, quantizer := q, multiplex := mux, pbReference := trb, pbQuantizer := dbq,
                   extra := extra }))

/-- `decode_gob`: `Ok(None)` (a picture start code / end-of-sequence code is next; nothing consumed) or an error -/
def decodeGob : P Unit := fun c =>
  match (do
      let skipped ← recognizeStartCode false
      let skipped ← P.okOr skipped .invalidGobHeader
      skipBits (17 + skipped)
      let gobId ← readBits 8 5
      if gobId == 0 || gobId == 15 then pure () else P.fail .unimplemented : P Unit) c with
  | .ok (_, _) => .ok ((), c)
  | r => r

end H263V.Header
