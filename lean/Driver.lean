/-
Line-protocol driver (DESIGN.md §1.3, appendix C): reads one case per line from stdin, runs the
executable *model* (and, where one exists, the executable *spec*) and prints the canonical result.
Import-free of Mathlib so that it links as a native executable.
-/
import H263V.Model.Util
import H263V.Model.Deblock
import H263V.Model.Yuv
import H263V.Spec.Bt601
import H263V.Spec.AnnexJ
import H263V.Gen.Tables
import H263V.Model.Show
import H263V.Spec.GenCases
import H263V.Spec.GenHeaders
import H263V.DriverUnits
import H263V.Model.Script

open H263V H263V.Util H263V.Show H263V.State

def fmt4 (r : Int × Int × Int × Int) : String :=
  s!"{r.1} {r.2.1} {r.2.2.1} {r.2.2.2}"

def outK (o : Out (Int × Int × Int × Int)) : String :=
  match o with
  | .ok r => fmt4 r
  | _ => "PANIC"

def decOpts (n : Nat) : DecOpts := { sorenson := n % 2 == 1, scalability := (n / 2) % 2 == 1 }

def mkCur (bytes : Array Nat) : Cur := { bits := bytesToBits bytes.toList, pos := 0 }

def runH (o : Nat) (prevHex hex : String) : String :=
  match (if prevHex == "-" || prevHex.startsWith "o" then some #[] else unhex prevHex), unhex hex with
  | some pb, some b =>
    let d := decOpts o
    let prev : Option PicHdr :=
      if prevHex == "-" then none else
      if prevHex.startsWith "o" then
        some { version := none, tr := 0, format := none, options := (prevHex.drop 1).toString.toNat!, hasPlusptype := true, hasOpptype := false,
               picType := .pFrame, mvRange := none, sliceSubmode := none, layer := none, rpsMode := none, predictionRef := none,
               quantizer := 1, multiplex := none, pbReference := none, pbQuantizer := none, extra := [] } else
      match Header.decodePicture d none (mkCur pb) with
      | .ok (some h, _) => some h
      | _ => none
    let c := mkCur b
    match Header.decodePicture d prev c with
    | .ok (some h, c') => s!"H {hdrS h} used={c'.pos}"
    | .ok (none, c') => s!"H none used={c'.pos}"
    | .err e => s!"H err:{e.name} used=0"
    | .panic _ => "H PANIC"
    | .fuel => "H FUEL"
  | _, _ => "bad-op"

def runP (full : Bool) (o : Nat) (ops : String) : String := Id.run do
  let mut st := State.new (decOpts o)
  let mut cur : Cur := { bits := [], pos := 0 }
  let mut outs : Array String := #[]
  for op in ops.splitOn ";" do
    if op.isEmpty then continue
    let mut res := ""
    let mut decode := false
    if op.startsWith "d:" then
      match unhex (op.drop 2).toString with
      | some b => cur := { cur with bits := cur.bits ++ bytesToBits b.toList }; decode := true
      | none => res := "bad-op"
    else if op.startsWith "a:" then
      match unhex (op.drop 2).toString with
      | some b => cur := { cur with bits := cur.bits ++ bytesToBits b.toList }; res := "app"
      | none => res := "bad-op"
    else if op.startsWith "r:" then
      match unhex (op.drop 2).toString with
      | some b => cur := { bits := bytesToBits b.toList, pos := 0 }; decode := true
      | none => res := "bad-op"
    else if op == "n" then decode := true
    else if op == "c" then st := st.cleanup; res := "cleanup"
    else res := "bad-op"
    if decode then
      let tooLarge : Bool :=
        match Header.decodePicture st.opts (st.getLast.map (·.hdr)) cur with
        | .ok (some h, _) => (match h.format.bind SrcFmt.dims with | some (w, hh) => w * hh > 2097152 | none => false)
        | _ => false
      let r : Option (Out (State × Cur)) := match tooLarge with | true => none | false => some (decodeNextPicture st cur)
      match r with
      | none => res := "skip-large"
      | some (.ok (st', cur')) => st := st'; cur := cur'; res := "ok"
      | some (.err e) => res := s!"err:{e.name}"
      | some (.panic _) => res := "PANIC"
      | some .fuel => res := "FUEL"
    if res == "PANIC" || res == "FUEL" then
      outs := outs.push res
      break
    outs := outs.push s!"{res} last={picDigest st.getLast full} ref={picDigest st.getRef full} rem={cur.bits.length} run={st.running}"
  return (if full then "PX " else "P ") ++ " | ".intercalate outs.toList

def runPP (o : Nat) (hexs : String) : String :=
  match unhex hexs with
  | none => "bad-op"
  | some b =>
    let st := State.new (decOpts o)
    let cur := mkCur b
    let tooLarge : Bool :=
      match Header.decodePicture st.opts none cur with
      | .ok (some h, _) => (match h.format.bind SrcFmt.dims with | some (w, hh) => w * hh > 2097152 | none => false)
      | _ => false
    match tooLarge with
    | true => "PP skip-large"
    | false =>
    match decodeNextPicture st cur with
    | .err e => s!"PP err:{e.name}"
    | .panic _ => "PP PANIC"
    | .fuel => "PP FUEL"
    | .ok (st', _) =>
      match st'.getLast with
      | none => "PP ok post=nolast"
      | some p =>
        let q := p.hdr.quantizer
        let (w, h) := p.fmt.dims.getD (0, 0)
        if q == 0 || q > 31 then s!"PP ok post=q{q}" else
        let strength := Gen.QUANT_TO_STRENGTH.getD q 0
        let post : Out (Array Nat) := do
          let y2 ← Deblock.deblock p.luma w strength
          let cb2 ← Deblock.deblock p.cb p.chromaSpr strength
          let cr2 ← Deblock.deblock p.cr p.chromaSpr strength
          Yuv.yuv420ToRgba y2 cb2 cr2 w
        match post with
        | .ok rgba => s!"PP ok {w}x{h} q={q} post=ok len={rgba.size} rgba={hex16 (fnv rgba)}"
        | _ => s!"PP ok {w}x{h} q={q} post=PANIC"

/-- the model's answer for a schedule line: every history run on its own, sequentially -/
def runS (rest : String) : String :=
  let hists := rest.splitOn "||"
  let outs := hists.map fun h =>
    match (h.trimAscii.toString.splitOn " ").filter (· != "") with
    | [o, ops] => (match o.toNat? with | some o => ((runP false o ops).drop 2).toString | none => "bad-op")
    | [o] => (match o.toNat? with | some o => ((runP false o "").drop 2).toString | none => "bad-op")
    | _ => "bad-op"
  "S " ++ " || ".intercalate outs

def runR (spec : Bool) (w src ops : String) : String :=
  match w.toNat?, unhex src with
  | some W, some bytes =>
    let script := (Script.parseOps ops.toList).1
    if spec then
      let (outs, c) := Script.runTopS W script { bits := bytesToBits bytes.toList, pos := 0 }
      "R " ++ " ".intercalate outs ++ s!" rem={c.bits.length}"
    else
      let (outs, r) := Script.runTopR W script { src := bytes.toList, buf := [], bitsRead := 0 }
      "R " ++ " ".intercalate outs ++ s!" rem={r.bits.length}"
  | _, _ => "bad-op"

def runLine (line : String) : String :=
  let toks := line.trimAscii.toString.splitOn " "
  match DriverUnits.run toks with
  | some r => r
  | none =>
  match toks with
  | ["K", a, b, c, d, s] =>
    match a.toInt?, b.toInt?, c.toInt?, d.toInt?, s.toInt? with
    | some a, some b, some c, some d, some s =>
      s!"K {outK (Deblock.processScalar a b c d s)} | {outK (Deblock.processSimd a b c d s)}"
    | _, _, _, _, _ => "bad-op"
  | ["KS", a, b, c, d, s] =>   -- the specification
    match a.toInt?, b.toInt?, c.toInt?, d.toInt?, s.toInt? with
    | some a, some b, some c, some d, some s =>
      let r := fmt4 (Spec.AnnexJ.filter s a b c d)
      s!"K {r} | {r}"
    | _, _, _, _, _ => "bad-op"
  | ["D", w, s, h] =>
    match w.toNat?, s.toNat?, unhex h with
    | some w, some s, some img =>
      match Deblock.deblock img w s with
      | .ok r => s!"D {hex r}"
      | _ => "D PANIC"
    | _, _, _ => "bad-op"
  | ["DS", w, s, h] =>
    match w.toNat?, s.toNat?, unhex h with
    | some w, some s, some img => s!"D {hex (Spec.AnnexJ.deblock img w s)}"
    | _, _, _ => "bad-op"
  | ["Y", w, y, cb, cr] =>
    match w.toNat?, unhex y, unhex cb, unhex cr with
    | some w, some y, some cb, some cr =>
      match Yuv.yuv420ToRgba y cb cr w with
      | .ok r => s!"Y {hex r}"
      | _ => "Y PANIC"
    | _, _, _, _ => "bad-op"
  | ["YS", w, y, cb, cr] =>   -- the specification: pixel (x, y) = BT.601 of luma (x, y) and chroma (x/2, y/2)
    match w.toNat?, unhex y, unhex cb, unhex cr with
    | some w, some y, some cb, some cr =>
      let brw := (w + 1) / 2
      let px : Array Nat := Id.run do
        let mut out : Array Nat := Array.mkEmpty (y.size * 4)
        for i in [0:y.size] do
          let xx := i % w
          let yy := i / w
          let p := Spec.Bt601.pixel (y.getD i 0) (cb.getD ((yy / 2) * brw + xx / 2) 0) (cr.getD ((yy / 2) * brw + xx / 2) 0)
          out := (((out.push p.1.toNat).push p.2.1.toNat).push p.2.2.1.toNat).push p.2.2.2.toNat
        return out
      s!"Y {hex px}"
    | _, _, _, _ => "bad-op"
  | ["H", o, ph, h] => (match o.toNat? with | some o => runH o ph h | none => "bad-op")
  | ["R", w, src, ops] => runR false w src ops
  | ["RS", w, src, ops] => runR true w src ops
  | ["PP", o, h] => (match o.toNat? with | some o => runPP o h | none => "bad-op")
  | ["SZ", w, h] => (match w.toNat?, h.toNat? with
      | some w, some h => let (l, c, spr) := Gather.planeSizes w h; s!"SZ luma={l} cb={c} cr={c} spr={spr}"
      | _, _ => "bad-op")
  | "S" :: _ :: rest => runS (" ".intercalate rest)
  | ["P", o, ops] => (match o.toNat? with | some o => runP false o ops | none => "bad-op")
  | ["PX", o, ops] => (match o.toNat? with | some o => runP true o ops | none => "bad-op")
  | ["P", o] => (match o.toNat? with | some o => runP false o "" | none => "bad-op")
  | ["J"] => "J " ++ joinSp (Gen.QUANT_TO_STRENGTH.toList.map toString)
  | ["JS"] => "J " ++ joinSp (Spec.AnnexJ.tableJ2.map toString)
  | _ => "bad-op"

partial def loop (h : IO.FS.Stream) (out : IO.FS.Stream) : IO Unit := do
  let line ← h.getLine
  if line.isEmpty then return ()
  let l := line.trimAscii.toString
  if l.isEmpty || l.startsWith "#" then loop h out else
  out.putStrLn (runLine l)
  loop h out

def main (args : List String) : IO Unit := do
  let stdin ← IO.getStdin
  let stdout ← IO.getStdout
  match args with
  | ["GEN", kind, seed, count] =>
    let ls := if kind.startsWith "headers" then Spec.GenHeaders.run kind seed.toNat! else Spec.GenCases.runGen kind seed.toNat! count.toNat!
    for l in ls do
      stdout.putStrLn l
  | _ => loop stdin stdout
