import H263V.Model.Outcome
