//! Reader operation scripts (C14): `R <W> <hex source> <ops>`.

use crate::h263_cases::{err_name, remaining_bits};
use crate::util::unhex;
use h263_rs::parser::verif_hooks::Entry;
use h263_rs::parser::H263Reader;
use h263_rs::{Error, Result};
use std::io::Cursor;

#[derive(Debug, Clone)]
enum Op {
    Pk(u32),
    Rd(u32),
    Sk(u32),
    Ps(u32),
    Rs(u32),
    Sc(bool),
    Cm,
    Vl(usize),
    Tx(Vec<Op>, bool),
    Tu(Vec<Op>, u8),
    La(Vec<Op>),
}

fn num(cs: &[u8], mut i: usize) -> (u32, usize) {
    let mut v: u32 = 0;
    while i < cs.len() && cs[i].is_ascii_digit() {
        v = v * 10 + (cs[i] - b'0') as u32;
        i += 1;
    }
    (v, i)
}

fn parse(cs: &[u8], mut i: usize) -> (Vec<Op>, usize) {
    let mut out = Vec::new();
    while i < cs.len() {
        if cs[i] == b')' {
            return (out, i);
        }
        if cs[i] == b';' {
            i += 1;
            continue;
        }
        let two = if i + 1 < cs.len() { &cs[i..i + 2] } else { &cs[i..] };
        match two {
            b"pk" => { let (n, j) = num(cs, i + 2); out.push(Op::Pk(n)); i = j; }
            b"rd" => { let (n, j) = num(cs, i + 2); out.push(Op::Rd(n)); i = j; }
            b"sk" => { let (n, j) = num(cs, i + 2); out.push(Op::Sk(n)); i = j; }
            b"ps" => { let (n, j) = num(cs, i + 2); out.push(Op::Ps(n)); i = j; }
            b"rs" => { let (n, j) = num(cs, i + 2); out.push(Op::Rs(n)); i = j; }
            b"sc" => { let (n, j) = num(cs, i + 2); out.push(Op::Sc(n != 0)); i = j; }
            b"cm" => { out.push(Op::Cm); i += 2; }
            b"vl" => { let (n, j) = num(cs, i + 2); out.push(Op::Vl(n as usize)); i = j; }
            b"tx" | b"tu" | b"la" => {
                let (body, j) = parse(cs, i + 3);
                let rest = &cs[(j + 1).min(cs.len())..];
                if two == b"tx" {
                    if rest.starts_with(b"ok") { out.push(Op::Tx(body, false)); i = j + 3; }
                    else { out.push(Op::Tx(body, true)); i = j + 5; }
                } else if two == b"tu" {
                    if rest.starts_with(b"some") { out.push(Op::Tu(body, 0)); i = j + 5; }
                    else if rest.starts_with(b"none") { out.push(Op::Tu(body, 1)); i = j + 5; }
                    else { out.push(Op::Tu(body, 2)); i = j + 5; }
                } else {
                    out.push(Op::La(body));
                    i = j + 1;
                }
            }
            _ => { i += 1; }
        }
    }
    (out, i)
}

fn table(k: usize) -> Vec<Entry<u32>> {
    match k {
        0 => vec![Entry::Fork(1, 2), Entry::End(10), Entry::Fork(3, 4), Entry::End(20), Entry::Fork(5, 6), Entry::End(30), Entry::End(40)],
        1 => vec![Entry::Fork(1, 9), Entry::End(1)],
        _ => vec![Entry::End(5)],
    }
}

fn show<T: ToString>(r: &Result<T>) -> String {
    match r {
        Ok(v) => format!("={}", v.to_string()),
        Err(e) => format!("!{}", err_name(e)),
    }
}

macro_rules! impl_run {
    ($name:ident, $body:ident, $u:ty, $i:ty) => {
        fn $name(op: &Op, r: &mut H263Reader<Trickle>, out: &mut Vec<String>) -> bool {
            match op {
                Op::Pk(n) => { let x = r.peek_bits::<$u>(*n); out.push(show(&x)); x.is_err() }
                // an 8-bit read goes through `read_u8` (documented as the same thing): the decoder reads INTRADC and PSUPP with it
                Op::Rd(n) => {
                    let x = if *n == 8 { r.read_u8().map(|v| v as $u) } else { r.read_bits::<$u>(*n) };
                    out.push(show(&x));
                    x.is_err()
                }
                Op::Sk(n) => { let x = r.skip_bits(*n).map(|_| String::new()); out.push(show(&x)); x.is_err() }
                Op::Ps(n) => { let x = r.peek_signed_bits::<$u>(*n).map(|v| v as $i); out.push(show(&x)); x.is_err() }
                Op::Rs(n) => { let x = r.read_signed_bits::<$u>(*n).map(|v| v as $i); out.push(show(&x)); x.is_err() }
                Op::Sc(e) => {
                    let x = r.recognize_start_code(*e).map(|v| match v { Some(k) => k.to_string(), None => "none".into() });
                    out.push(show(&x));
                    x.is_err()
                }
                Op::Cm => { r.commit(); out.push("=cm".into()); false }
                Op::Vl(k) => { let t = table(*k); let x = r.read_vlc(&t[..]); out.push(show(&x)); x.is_err() }
                Op::Tx(body, fail) => {
                    let mut inner: Vec<String> = Vec::new();
                    let res: Result<()> = r.with_transaction(|r| {
                        if $body(body, r, &mut inner) { return Err(Error::InvalidBitstream); }
                        if *fail { Err(Error::InvalidBitstream) } else { Ok(()) }
                    });
                    out.extend(inner);
                    out.push(if res.is_err() { "tx-err".into() } else { "tx-ok".into() });
                    res.is_err()
                }
                Op::Tu(body, mode) => {
                    let mut inner: Vec<String> = Vec::new();
                    let res: Result<Option<()>> = r.with_transaction_union(|r| {
                        if $body(body, r, &mut inner) { return Err(Error::InvalidBitstream); }
                        match mode { 0 => Ok(Some(())), 1 => Ok(None), _ => Err(Error::InvalidBitstream) }
                    });
                    out.extend(inner);
                    out.push(match &res { Err(_) => "tu-err".into(), Ok(None) => "tu-none".into(), Ok(Some(_)) => "tu-some".to_string() });
                    res.is_err()
                }
                Op::La(body) => {
                    let mut inner: Vec<String> = Vec::new();
                    let res: Result<()> = r.with_lookahead(|r| {
                        if $body(body, r, &mut inner) { return Err(Error::InvalidBitstream); }
                        Ok(())
                    });
                    out.extend(inner);
                    out.push(if res.is_err() { "la-err".into() } else { "la-ok".into() });
                    res.is_err()
                }
            }
        }
        fn $body(ops: &[Op], r: &mut H263Reader<Trickle>, out: &mut Vec<String>) -> bool {
            for op in ops {
                if $name(op, r, out) {
                    return true;
                }
            }
            false
        }
    };
}

impl_run!(run8, body8, u8, i8);
impl_run!(run16, body16, u16, i16);
impl_run!(run32, body32, u32, i32);
impl_run!(run64, body64, u64, i64);

/// A byte source that may return short reads: at most `max` bytes per `read` call (0 = no limit).
pub struct Trickle {
    data: Cursor<Vec<u8>>,
    max: usize,
}
impl std::io::Read for Trickle {
    fn read(&mut self, buf: &mut [u8]) -> std::io::Result<usize> {
        let n = if self.max > 0 { buf.len().min(self.max) } else { buf.len() };
        self.data.read(&mut buf[..n])
    }
}

/// `R <W> <hex source> <ops>` -> `R <result> <result> ... rem=<bits>`
/// The source delivers at most `len % 4` bytes per read call (0 = no limit): the bits a reader delivers do not depend on that.
pub fn script(a: &[&str]) -> String {
    let w: u32 = a[0].parse().expect("W");
    let src = unhex(a[1]);
    let ops = parse(a.get(2).unwrap_or(&"").as_bytes(), 0).0;
    let max = src.len() % 4;
    let mut r = H263Reader::from_source(Trickle { data: Cursor::new(src), max });
    let mut out: Vec<String> = Vec::new();
    for op in &ops {
        match w {
            8 => { run8(op, &mut r, &mut out); }
            16 => { run16(op, &mut r, &mut out); }
            32 => { run32(op, &mut r, &mut out); }
            _ => { run64(op, &mut r, &mut out); }
        }
    }
    format!("R {} rem={}", out.join(" "), remaining_bits(&mut r))
}
