pub fn unhex(s: &str) -> Vec<u8> {
    if s == "-" {
        return vec![];
    }
    let b = s.as_bytes();
    assert!(b.len() % 2 == 0, "odd hex");
    (0..b.len() / 2)
        .map(|i| {
            let h = (b[2 * i] as char).to_digit(16).expect("hex");
            let l = (b[2 * i + 1] as char).to_digit(16).expect("hex");
            (h * 16 + l) as u8
        })
        .collect()
}

pub fn hex(v: &[u8]) -> String {
    if v.is_empty() {
        return "-".to_string();
    }
    let mut s = String::with_capacity(v.len() * 2);
    for b in v {
        s.push_str(&format!("{:02x}", b));
    }
    s
}
