use crate::util::{hex, unhex};
use h263_rs_yuv::bt601::yuv420_to_rgba;

/// `Y w hexY hexCb hexCr` -> `Y <hex rgba>`
pub fn image(a: &[&str]) -> String {
    let w: usize = a[0].parse().expect("w");
    let y = unhex(a[1]);
    let cb = unhex(a[2]);
    let cr = unhex(a[3]);
    let out = yuv420_to_rgba(&y, &cb, &cr, w);
    format!("Y {}", hex(&out))
}
