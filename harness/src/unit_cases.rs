//! Hook-level unit cases: dequantisation (L, IDC), vector arithmetic (M, A, LP, MED, N), IDCT (T).

use crate::util::{hex, unhex};
use h263_rs::verif_hooks::*;
use h263_rs::PictureOption;

fn dct_str(b: &DecodedDctBlock) -> String {
    let f = |v: &f32| format!("{}", *v as i32);
    match b {
        DecodedDctBlock::Zero => "Z".into(),
        DecodedDctBlock::Dc(v) => format!("D:{}", f(v)),
        DecodedDctBlock::Horiz(r) => format!("H:{}", r.iter().map(f).collect::<Vec<_>>().join(",")),
        DecodedDctBlock::Vert(r) => format!("V:{}", r.iter().map(f).collect::<Vec<_>>().join(",")),
        DecodedDctBlock::Full(d) => format!(
            "F:{}",
            d.iter().flat_map(|r| r.iter()).map(f).collect::<Vec<_>>().join(",")
        ),
    }
}

/// `L <q> <dc|-> <run,level;run,level;...|->` -> the block written by inverse_rle into a one-entry level array
/// that initially holds `Dc(7)` (so that an early return is visible as `D:7`)
pub fn dequant(a: &[&str]) -> String {
    let q: u8 = a[0].parse().expect("q");
    let intradc = if a[1] == "-" { None } else { IntraDc::from_u8(a[1].parse().expect("dc")) };
    if a[1] != "-" && intradc.is_none() {
        return "L invalid-dc".into();
    }
    let mut tcoef = Vec::new();
    if a[2] != "-" {
        for ev in a[2].split(';') {
            let mut it = ev.split(',');
            let run: u8 = it.next().unwrap().parse().expect("run");
            let level: i16 = it.next().unwrap().parse().expect("level");
            tcoef.push(TCoefficient { is_short: false, run, level });
        }
    }
    let block = Block { intradc, tcoef };
    let mut levels = [DecodedDctBlock::Dc(7.0)];
    inverse_rle(&block, &mut levels, (0, 0), 1, q);
    format!("L {}", dct_str(&levels[0]))
}

/// `IDC <code>` -> `IDC <level>` or `IDC none`
pub fn intradc(a: &[&str]) -> String {
    let c: u8 = a[0].parse().expect("code");
    match IntraDc::from_u8(c) {
        Some(d) => format!("IDC {}", d.into_level()),
        None => "IDC none".into(),
    }
}

fn mk_picture(plus: bool, mvr: &str, w: u16, h: u16) -> DecodedPicture {
    let p = Picture {
        version: None,
        temporal_reference: 0,
        format: None,
        options: PictureOption::empty(),
        has_plusptype: plus,
        has_opptype: plus,
        picture_type: h263_rs::PictureTypeCode::PFrame,
        motion_vector_range: match mvr {
            "E" => Some(MotionVectorRange::Extended),
            "U" => Some(MotionVectorRange::Unlimited),
            _ => None,
        },
        slice_submode: None,
        scalability_layer: None,
        reference_picture_selection_mode: None,
        prediction_reference: None,
        backchannel_message: None,
        reference_picture_resampling: None,
        quantizer: 1,
        multiplex_bitstream: None,
        pb_reference: None,
        pb_quantizer: None,
        extra: vec![],
    };
    let fmt = SourceFormat::Extended(CustomPictureFormat {
        pixel_aspect_ratio: PixelAspectRatio::Square,
        picture_width_indication: w,
        picture_height_indication: h,
    });
    DecodedPicture::new(p, fmt).expect("picture")
}

fn mv(x: i16, y: i16) -> MotionVector {
    (HalfPel::from_unit(x), HalfPel::from_unit(y)).into()
}
fn mv_str(m: MotionVector) -> String {
    let (x, y): (HalfPel, HalfPel) = m.into();
    format!("{},{}", x.verif_raw(), y.verif_raw())
}

/// `M <plus 0|1> <umv 0|1> <mvr E|U|-> <w> <h> <px> <py> <dx> <dy>` -> `M <x>,<y>`
pub fn mvdecode(a: &[&str]) -> String {
    let plus = a[0] == "1";
    let umv = a[1] == "1";
    let w: u16 = a[3].parse().expect("w");
    let h: u16 = a[4].parse().expect("h");
    let v: Vec<i16> = a[5..9].iter().map(|x| x.parse().expect("i16")).collect();
    let pic = mk_picture(plus, a[2], w, h);
    let ro = if umv { PictureOption::UNRESTRICTED_MOTION_VECTORS } else { PictureOption::empty() };
    let r = mv_decode(&pic, ro, mv(v[0], v[1]), mv(v[2], v[3]));
    format!("M {}", mv_str(r))
}

/// `A <sum>` -> `A <chroma component>`
pub fn average(a: &[&str]) -> String {
    let s: i16 = a[0].parse().expect("sum");
    format!("A {}", HalfPel::from_unit(s).average_sum_of_mvs().verif_raw())
}

/// `LP <v>` -> `LP <delta> <0|1>`
pub fn lerp_params(a: &[&str]) -> String {
    let s: i16 = a[0].parse().expect("v");
    let (d, i) = HalfPel::from_unit(s).into_lerp_parameters();
    format!("LP {} {}", d, i as u8)
}

/// `MED a b c` -> `MED m`
pub fn median(a: &[&str]) -> String {
    let v: Vec<i16> = a.iter().map(|x| x.parse().expect("i16")).collect();
    let m = HalfPel::from_unit(v[0]).median_of(HalfPel::from_unit(v[1]), HalfPel::from_unit(v[2]));
    format!("MED {}", m.verif_raw())
}

/// `N <mbPerLine> <index> <cur: 8 ints comma separated> <pv: n*8 ints comma separated | ->` -> `N x,y`
pub fn predict(a: &[&str]) -> String {
    let mbpl: usize = a[0].parse().expect("mbpl");
    let idx: usize = a[1].parse().expect("idx");
    let c: Vec<i16> = a[2].split(',').map(|x| x.parse().expect("i16")).collect();
    let cur = [mv(c[0], c[1]), mv(c[2], c[3]), mv(c[4], c[5]), mv(c[6], c[7])];
    let mut pv: Vec<[MotionVector; 4]> = Vec::new();
    if a[3] != "-" {
        let p: Vec<i16> = a[3].split(',').map(|x| x.parse().expect("i16")).collect();
        for k in 0..p.len() / 8 {
            let q = &p[8 * k..8 * k + 8];
            pv.push([mv(q[0], q[1]), mv(q[2], q[3]), mv(q[4], q[5]), mv(q[6], q[7])]);
        }
    }
    let r = predict_candidate(&pv, &cur, mbpl, idx);
    format!("N {}", mv_str(r))
}

fn parse_block(s: &str) -> DecodedDctBlock {
    if s == "Z" {
        return DecodedDctBlock::Zero;
    }
    let (k, v) = s.split_once(':').expect("block");
    let vals: Vec<f32> = v.split(',').map(|x| x.parse::<i32>().expect("int") as f32).collect();
    match k {
        "D" => DecodedDctBlock::Dc(vals[0]),
        "H" => {
            let mut r = [0.0f32; 8];
            r.copy_from_slice(&vals[0..8]);
            DecodedDctBlock::Horiz(r)
        }
        "V" => {
            let mut r = [0.0f32; 8];
            r.copy_from_slice(&vals[0..8]);
            DecodedDctBlock::Vert(r)
        }
        _ => {
            let mut d = [[0.0f32; 8]; 8];
            for y in 0..8 {
                for x in 0..8 {
                    d[y][x] = vals[8 * y + x];
                }
            }
            DecodedDctBlock::Full(d)
        }
    }
}

/// `T <blkPerLine> <spl> <outLen> <pred> <block> <block> ...` -> `T <hex plane>`
pub fn idct(a: &[&str]) -> String {
    let bpl: usize = a[0].parse().expect("bpl");
    let spl: usize = a[1].parse().expect("spl");
    let n: usize = a[2].parse().expect("len");
    let blocks: Vec<DecodedDctBlock> = a[4..].iter().map(|s| parse_block(s)).collect();
    // the prediction: one value for the whole plane, or `p<hex plane>`
    let mut out = match a[3].strip_prefix('p') {
        Some(h) => unhex(h),
        None => vec![a[3].parse::<u8>().expect("pred"); n],
    };
    assert_eq!(out.len(), n);
    idct_channel(&blocks, &mut out, bpl, spl);
    format!("T {}", hex(&out))
}
