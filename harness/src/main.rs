//! Correspondence harness: runs the real crates from /repo's working tree on the cases of the
//! line protocol (DESIGN.md appendix C) and prints canonical results, one line per case.

use std::io::{self, BufRead, Write};
use std::panic::{catch_unwind, AssertUnwindSafe};

mod deblock_cases;
mod h263_cases;
mod reader_cases;
mod unit_cases;
mod util;
mod yuv_cases;

fn run_line(line: &str) -> String {
    let mut it = line.split_whitespace();
    let kind = match it.next() {
        Some(k) => k,
        None => return String::new(),
    };
    let rest: Vec<&str> = it.collect();
    match kind {
        "K" => deblock_cases::kernel(&rest),
        "D" => deblock_cases::image(&rest),
        "J" => deblock_cases::table(),
        "Y" => yuv_cases::image(&rest),
        "L" => unit_cases::dequant(&rest),
        "IDC" => unit_cases::intradc(&rest),
        "M" => unit_cases::mvdecode(&rest),
        "A" => unit_cases::average(&rest),
        "LP" => unit_cases::lerp_params(&rest),
        "MED" => unit_cases::median(&rest),
        "N" => unit_cases::predict(&rest),
        "T" => unit_cases::idct(&rest),
        "H" => h263_cases::header(&rest),
        "P" => h263_cases::history(&rest, false),
        "PX" => h263_cases::history(&rest, true),
        "R" => reader_cases::script(&rest),
        "PP" => h263_cases::pipeline(&rest),
        "SZ" => h263_cases::plane_sizes(&rest),
        "S" => h263_cases::schedule(&rest),
        _ => format!("bad-op {}", kind),
    }
}

fn main() {
    // Panics are expected observations; keep stderr quiet.
    std::panic::set_hook(Box::new(|_| {}));
    let stdin = io::stdin();
    let stdout = io::stdout();
    let mut out = io::BufWriter::new(stdout.lock());
    for line in stdin.lock().lines() {
        let line = line.expect("stdin");
        let l = line.trim();
        if l.is_empty() || l.starts_with('#') {
            continue;
        }
        let res = catch_unwind(AssertUnwindSafe(|| run_line(l)));
        let s = match res {
            Ok(s) => s,
            Err(_) => format!("{} PANIC", l.split_whitespace().next().unwrap_or("?")),
        };
        writeln!(out, "{}", s).unwrap();
    }
    out.flush().unwrap();
}
