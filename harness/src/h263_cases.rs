//! Cases that drive the h263 crate: header parsing (H), decode histories (P / PX), hook-level units.

use crate::util::{hex, unhex};
use h263_rs::parser::{decode_picture, H263Reader};
use h263_rs::verif_hooks::*;
use h263_rs::{DecoderOption, Error, H263State};
use std::cell::RefCell;
use std::collections::VecDeque;
use std::io::Read;
use std::panic::{catch_unwind, AssertUnwindSafe};
use std::rc::Rc;

/// A byte source that can be extended between calls.
#[derive(Clone)]
/// The second field limits how many bytes one `read` call delivers (0 = no limit): a `Read` source may return short reads.
pub struct Growable(pub Rc<RefCell<VecDeque<u8>>>, pub usize);
impl Growable {
    pub fn new(chunk: usize) -> Self {
        Growable(Rc::new(RefCell::new(VecDeque::new())), chunk)
    }
}
impl Read for Growable {
    fn read(&mut self, buf: &mut [u8]) -> std::io::Result<usize> {
        let mut q = self.0.borrow_mut();
        let mut n = buf.len().min(q.len());
        if self.1 > 0 {
            n = n.min(self.1);
        }
        for b in buf.iter_mut().take(n) {
            *b = q.pop_front().unwrap();
        }
        Ok(n)
    }
}

pub fn err_name(e: &Error) -> String {
    match e {
        Error::UnhandledIoError(_) => {
            if e.is_eof_error() {
                "Eof".to_string()
            } else {
                "OtherIo".to_string()
            }
        }
        other => {
            let d = format!("{:?}", other);
            d.split('(').next().unwrap().to_string()
        }
    }
}

pub fn opts_of(n: u32) -> DecoderOption {
    let mut o = DecoderOption::empty();
    if n & 1 != 0 {
        o |= DecoderOption::SORENSON_SPARK_BITSTREAM;
    }
    if n & 2 != 0 {
        o |= DecoderOption::USE_SCALABILITY_MODE;
    }
    o
}

fn opt<T: ToString>(o: &Option<T>) -> String {
    match o {
        Some(v) => v.to_string(),
        None => "-".to_string(),
    }
}

fn par_str(p: &PixelAspectRatio) -> String {
    match p {
        PixelAspectRatio::Square => "sq".into(),
        PixelAspectRatio::Par12_11 => "12_11".into(),
        PixelAspectRatio::Par10_11 => "10_11".into(),
        PixelAspectRatio::Par16_11 => "16_11".into(),
        PixelAspectRatio::Par40_33 => "40_33".into(),
        PixelAspectRatio::Reserved(r) => format!("res{}", r),
        PixelAspectRatio::Extended { par_width, par_height } => format!("ext{}:{}", par_width, par_height),
    }
}

pub fn fmt_str(f: &SourceFormat) -> String {
    match f {
        SourceFormat::SubQcif => "SubQcif".into(),
        SourceFormat::QuarterCif => "QuarterCif".into(),
        SourceFormat::FullCif => "FullCif".into(),
        SourceFormat::FourCif => "FourCif".into(),
        SourceFormat::SixteenCif => "SixteenCif".into(),
        SourceFormat::Reserved => "Reserved".into(),
        SourceFormat::Extended(c) => format!(
            "Ext({},{},{})",
            par_str(&c.pixel_aspect_ratio),
            c.picture_width_indication,
            c.picture_height_indication
        ),
    }
}

pub fn type_str(t: &h263_rs::PictureTypeCode) -> String {
    use h263_rs::PictureTypeCode::*;
    match t {
        IFrame => "I".into(),
        PFrame => "P".into(),
        PbFrame => "PB".into(),
        ImprovedPbFrame => "IPB".into(),
        BFrame => "B".into(),
        EiFrame => "EI".into(),
        EpFrame => "EP".into(),
        Reserved(r) => format!("R{}", r),
        DisposablePFrame => "D".into(),
    }
}

/// canonical, fixed field order
pub fn header_str(p: &Picture) -> String {
    let mvr = match &p.motion_vector_range {
        Some(MotionVectorRange::Extended) => "E",
        Some(MotionVectorRange::Unlimited) => "U",
        None => "-",
    };
    let lay = match &p.scalability_layer {
        Some(l) => format!("{},{}", l.enhancement, opt(&l.reference)),
        None => "-".into(),
    };
    let dbq = match &p.pb_quantizer {
        Some(BPictureQuantizer::Five) => "5",
        Some(BPictureQuantizer::Six) => "6",
        Some(BPictureQuantizer::Seven) => "7",
        Some(BPictureQuantizer::Eight) => "8",
        None => "-",
    };
    format!(
        "ver={} tr={} fmt={} opts={} plus={} opp={} type={} mvr={} sss={} lay={} rpsm={} trp={} bcm={} rprp={} q={} cpm={} trb={} dbq={} extra={}",
        opt(&p.version),
        p.temporal_reference,
        p.format.as_ref().map(fmt_str).unwrap_or_else(|| "-".into()),
        p.options.bits(),
        p.has_plusptype as u8,
        p.has_opptype as u8,
        type_str(&p.picture_type),
        mvr,
        p.slice_submode.as_ref().map(|s| s.bits().to_string()).unwrap_or_else(|| "-".into()),
        lay,
        p.reference_picture_selection_mode.as_ref().map(|s| s.bits().to_string()).unwrap_or_else(|| "-".into()),
        opt(&p.prediction_reference),
        if p.backchannel_message.is_some() { "some" } else { "-" },
        if p.reference_picture_resampling.is_some() { "some" } else { "-" },
        p.quantizer,
        opt(&p.multiplex_bitstream),
        opt(&p.pb_reference),
        dbq,
        hex(&p.extra)
    )
}

/// number of bits that can still be read (look-ahead; the position is restored)
pub fn remaining_bits<R: Read>(r: &mut H263Reader<R>) -> usize {
    r.with_lookahead(|r| {
        let mut n = 0usize;
        loop {
            // read in big steps first
            if r.skip_bits(8).is_ok() {
                n += 8;
            } else if r.skip_bits(1).is_ok() {
                n += 1;
            } else {
                break;
            }
        }
        Ok(n)
    })
    .unwrap_or(usize::MAX)
}

/// Bits not yet consumed, computed WITHOUT touching the reader: bytes still in the growable source plus bytes in the reader's
/// internal buffer, minus the consumed bits of that buffer (hook `verif_buffer_state`).  Between the calls of a history the reader
/// must be left exactly as the library left it — draining the source into its buffer (as `remaining_bits` does) would hide
/// defects of the buffering itself.
pub fn remaining_bits_quiet(r: &H263Reader<Growable>, src: &Growable) -> usize {
    let (buffered, consumed) = r.verif_buffer_state();
    (8 * (src.0.borrow().len() + buffered)).saturating_sub(consumed)
}

/// `SZ <w> <h>` -> `SZ luma=<n> cb=<n> cr=<n> spr=<chroma samples per row>`: the planes `DecodedPicture::new` allocates for a
/// custom picture format of that size (no decoding; sizes far above what a decode case can afford)
pub fn plane_sizes(a: &[&str]) -> String {
    let w: u16 = a[0].parse().expect("w");
    let h: u16 = a[1].parse().expect("h");
    let hdr = Picture {
        version: None,
        temporal_reference: 0,
        format: None,
        options: h263_rs::PictureOption::empty(),
        has_plusptype: false,
        has_opptype: false,
        picture_type: h263_rs::PictureTypeCode::IFrame,
        motion_vector_range: None,
        slice_submode: None,
        scalability_layer: None,
        reference_picture_selection_mode: None,
        prediction_reference: None,
        backchannel_message: None,
        reference_picture_resampling: None,
        quantizer: 1,
        multiplex_bitstream: None,
        pb_reference: None,
        pb_quantizer: None,
        extra: vec![],
    };
    let fmt = SourceFormat::Extended(CustomPictureFormat {
        pixel_aspect_ratio: PixelAspectRatio::Square,
        picture_width_indication: w,
        picture_height_indication: h,
    });
    match DecodedPicture::new(hdr, fmt) {
        Some(p) => {
            let (y, b, r) = p.as_yuv();
            format!("SZ luma={} cb={} cr={} spr={}", y.len(), b.len(), r.len(), p.chroma_samples_per_row())
        }
        None => "SZ none".into(),
    }
}

/// `H <opts> <hexPrev|-> <hex>` -> `H <header|none|err:Name> used=<bits>`
pub fn header(a: &[&str]) -> String {
    let o = opts_of(a[0].parse().expect("opts"));
    let prev: Option<Picture> = if a[1] == "-" {
        None
    } else if let Some(bits) = a[1].strip_prefix('o') {
        // a synthetic previous header: the given options, no format
        Some(Picture {
            version: None,
            temporal_reference: 0,
            format: None,
            options: h263_rs::PictureOption::from_bits_truncate(bits.parse().expect("options")),
            has_plusptype: true,
            has_opptype: false,
            picture_type: h263_rs::PictureTypeCode::PFrame,
            motion_vector_range: None,
            slice_submode: None,
            scalability_layer: None,
            reference_picture_selection_mode: None,
            prediction_reference: None,
            backchannel_message: None,
            reference_picture_resampling: None,
            quantizer: 1,
            multiplex_bitstream: None,
            pb_reference: None,
            pb_quantizer: None,
            extra: vec![],
        })
    } else {
        let mut r = H263Reader::from_source(std::io::Cursor::new(unhex(a[1])));
        decode_picture(&mut r, o, None).ok().flatten()
    };
    let bytes = unhex(a[2]);
    let total = bytes.len() * 8;
    let mut r = H263Reader::from_source(std::io::Cursor::new(bytes));
    let res = decode_picture(&mut r, o, prev.as_ref());
    let used = total - remaining_bits(&mut r);
    match res {
        Ok(Some(p)) => format!("H {} used={}", header_str(&p), used),
        Ok(None) => format!("H none used={}", used),
        Err(e) => format!("H err:{} used={}", err_name(&e), used),
    }
}

pub fn fnv(data: &[u8]) -> u64 {
    let mut h: u64 = 0xcbf29ce484222325;
    for b in data {
        h ^= *b as u64;
        h = h.wrapping_mul(0x100000001b3);
    }
    h
}

fn pic_digest(p: Option<&DecodedPicture>, full: bool) -> String {
    match p {
        None => "-".into(),
        Some(p) => {
            let h = p.as_header();
            let (w, hh) = p.format().into_width_and_height().unwrap_or((0, 0));
            let (y, b, r) = p.as_yuv();
            let planes = if full {
                format!("{} {} {}", hex(y), hex(b), hex(r))
            } else {
                format!("{:016x} {:016x} {:016x}", fnv(y), fnv(b), fnv(r))
            };
            format!(
                "[tr={} type={} q={} opts={} {}x{} n={},{},{} spr={} lrow={} {}]",
                h.temporal_reference,
                type_str(&h.picture_type),
                h.quantizer,
                h.options.bits(),
                w,
                hh,
                y.len(),
                b.len(),
                r.len(),
                p.chroma_samples_per_row(),
                p.luma_samples_per_row(),
                planes
            )
        }
    }
}

/// `P <opts> <op;op;...>` with ops `d:<hex>` (append bytes, decode), `a:<hex>` (append only), `n` (decode), `c` (cleanup_buffers).
/// After every op: `<ok|err:Name|PANIC> last=<digest> ref=<digest> rem=<bits> run=<carried-over option bits>`.
pub fn history(a: &[&str], full: bool) -> String {
    // opts: bit 0 Sorenson, bit 1 scalability; opts / 4 = most bytes the source delivers per read call (0 = all it has)
    let on: u32 = a[0].parse().expect("opts");
    let o = opts_of(on);
    let src = Growable::new((on / 4) as usize);
    let mut reader = H263Reader::from_source(src.clone());
    let mut st = H263State::new(o);
    let mut out: Vec<String> = Vec::new();
    let ops: Vec<&str> = if a.len() > 1 { a[1].split(';').collect() } else { vec![] };
    for op in ops {
        if op.is_empty() {
            continue;
        }
        let mut res = String::new();
        if let Some(h) = op.strip_prefix("d:") {
            src.0.borrow_mut().extend(unhex(h));
            res = decode_once(&mut st, &mut reader, o);
        } else if let Some(h) = op.strip_prefix("a:") {
            src.0.borrow_mut().extend(unhex(h));
            res.push_str("app");
        } else if let Some(h) = op.strip_prefix("r:") {
            // a fresh reader over exactly these bytes (same decoder state)
            src.0.borrow_mut().clear();
            src.0.borrow_mut().extend(unhex(h));
            reader = H263Reader::from_source(src.clone());
            res = decode_once(&mut st, &mut reader, o);
        } else if op == "n" {
            res = decode_once(&mut st, &mut reader, o);
        } else if op == "c" {
            st.cleanup_buffers();
            res.push_str("cleanup");
        } else {
            res.push_str("bad-op");
        }
        if res == "PANIC" {
            out.push("PANIC".into());
            break;
        }
        let rem = remaining_bits_quiet(&reader, &src);
        out.push(format!(
            "{} last={} ref={} rem={} run={}",
            res,
            pic_digest(st.get_last_picture(), full),
            pic_digest(st.get_reference_picture(), full),
            rem,
            st.verif_running_options()
        ));
    }
    format!("{} {}", if full { "PX" } else { "P" }, out.join(" | "))
}

/// Declared picture sizes above this many luma samples are excluded (C01: "inputs whose declared picture
/// size would not fit in memory"); both sides print `skip-large` instead of decoding.
pub const MAX_SAMPLES: usize = 1 << 21;

fn declared_too_large(st: &H263State, reader: &mut H263Reader<Growable>, o: DecoderOption) -> bool {
    let prev = st.get_last_picture().map(|p| p.as_header());
    let hdr = reader.with_lookahead(|r| decode_picture(r, o, prev));
    if let Ok(Some(p)) = hdr {
        if let Some(f) = p.format {
            if let Some((w, h)) = f.into_width_and_height() {
                return (w as usize) * (h as usize) > MAX_SAMPLES;
            }
        }
    }
    false
}

fn decode_once(st: &mut H263State, reader: &mut H263Reader<Growable>, o: DecoderOption) -> String {
    if declared_too_large(st, reader, o) {
        return "skip-large".into();
    }
    match catch_unwind(AssertUnwindSafe(|| st.decode_next_picture(reader))) {
        Ok(Ok(())) => "ok".into(),
        Ok(Err(e)) => format!("err:{}", err_name(&e)),
        Err(_) => "PANIC".into(),
    }
}

/// `PP <opts> <hex>`: decode one picture, deblock every plane with the strength tabulated for the picture's quantizer,
/// convert to RGBA.  -> `PP <decode result> [post=ok len=<n> rgba=<fnv> | post=PANIC | post=q0]`
pub fn pipeline(a: &[&str]) -> String {
    let o = opts_of(a[0].parse().expect("opts"));
    let src = Growable::new(0);
    src.0.borrow_mut().extend(unhex(a[1]));
    let mut reader = H263Reader::from_source(src.clone());
    let mut st = H263State::new(o);
    let r = decode_once(&mut st, &mut reader, o);
    if r != "ok" {
        return format!("PP {}", r);
    }
    let p = st.get_last_picture().expect("last picture");
    let q = p.as_header().quantizer as usize;
    let (w, h) = p.format().into_width_and_height().unwrap_or((0, 0));
    let (y, cb, cr) = p.as_yuv();
    let spr = p.chroma_samples_per_row();
    if q == 0 || q > 31 {
        return format!("PP ok post=q{}", q);
    }
    let strength = h263_rs_deblock::deblock::QUANT_TO_STRENGTH[q];
    let res = catch_unwind(AssertUnwindSafe(|| {
        let y2 = h263_rs_deblock::deblock::deblock(y, w as usize, strength);
        let cb2 = h263_rs_deblock::deblock::deblock(cb, spr, strength);
        let cr2 = h263_rs_deblock::deblock::deblock(cr, spr, strength);
        let rgba = h263_rs_yuv::bt601::yuv420_to_rgba(&y2, &cb2, &cr2, w as usize);
        (rgba.len(), fnv(&rgba))
    }));
    match res {
        Ok((n, hsh)) => format!("PP ok {}x{} q={} post=ok len={} rgba={:016x}", w, h, q, n, hsh),
        Err(_) => format!("PP ok {}x{} q={} post=PANIC", w, h, q),
    }
}

/// `S <threads> <opts> <ops> [|| <opts> <ops>]...`: every thread runs all the histories on its own decoder instances,
/// interleaved op by op (round robin, rotated by thread index).  -> `S <r1> || <r2> ...` (each the result every thread
/// obtained for that history) or `S DIFFER ...`
pub fn schedule(a: &[&str]) -> String {
    let threads: usize = a[0].parse().expect("threads");
    let joined = a[1..].join(" ");
    let hists: Vec<(u32, Vec<String>)> = joined
        .split("||")
        .map(|h| {
            let mut it = h.split_whitespace();
            let o: u32 = it.next().expect("opts").parse().expect("opts");
            let ops: Vec<String> = it.next().unwrap_or("").split(';').filter(|s| !s.is_empty()).map(|s| s.to_string()).collect();
            (o, ops)
        })
        .collect();
    let hists = std::sync::Arc::new(hists);
    let mut handles = Vec::new();
    for t in 0..threads {
        let hists = hists.clone();
        handles.push(std::thread::spawn(move || {
            let n = hists.len();
            // one instance per history, on this thread
            let mut inst: Vec<(Growable, H263Reader<Growable>, H263State, DecoderOption, Vec<String>, bool)> = hists
                .iter()
                .map(|(o, _)| {
                    // thread t's sources deliver at most t % 4 bytes per read call (0 = no limit): same bytes, other chunking
                    let src = Growable::new(t % 4);
                    let rd = H263Reader::from_source(src.clone());
                    (src, rd, H263State::new(opts_of(*o)), opts_of(*o), Vec::new(), false)
                })
                .collect();
            let maxlen = hists.iter().map(|(_, ops)| ops.len()).max().unwrap_or(0);
            for step in 0..maxlen {
                for k0 in 0..n {
                    let k = (k0 + t) % n;
                    let ops = &hists[k].1;
                    if step >= ops.len() || inst[k].5 {
                        continue;
                    }
                    let op = &ops[step];
                    let (src, rd, st, o, out, dead) = &mut inst[k];
                    let mut res = String::new();
                    if let Some(h) = op.strip_prefix("d:") {
                        src.0.borrow_mut().extend(unhex(h));
                        res = decode_once(st, rd, *o);
                    } else if let Some(h) = op.strip_prefix("a:") {
                        src.0.borrow_mut().extend(unhex(h));
                        res.push_str("app");
                    } else if op == "n" {
                        res = decode_once(st, rd, *o);
                    } else if op == "c" {
                        st.cleanup_buffers();
                        res.push_str("cleanup");
                    } else {
                        res.push_str("bad-op");
                    }
                    if res == "PANIC" {
                        out.push("PANIC".into());
                        *dead = true;
                        continue;
                    }
                    let rem = remaining_bits_quiet(rd, src);
                    out.push(format!(
                        "{} last={} ref={} rem={} run={}",
                        res,
                        pic_digest(st.get_last_picture(), false),
                        pic_digest(st.get_reference_picture(), false),
                        rem,
                        st.verif_running_options()
                    ));
                }
            }
            inst.into_iter().map(|i| i.4.join(" | ")).collect::<Vec<String>>()
        }));
    }
    let results: Vec<Vec<String>> = handles.into_iter().map(|h| h.join().unwrap_or_default()).collect();
    let n = hists.len();
    let mut outs = Vec::new();
    for k in 0..n {
        let first = results.first().and_then(|r| r.get(k)).cloned().unwrap_or_else(|| "THREAD-DIED".into());
        if results.iter().all(|r| r.get(k) == Some(&first)) {
            outs.push(first);
        } else {
            let mut distinct: Vec<String> = results.iter().filter_map(|r| r.get(k).cloned()).collect();
            distinct.sort();
            distinct.dedup();
            outs.push(format!("DIFFER({} variants)", distinct.len()));
        }
    }
    format!("S {}", outs.join(" || "))
}
