use crate::util::{hex, unhex};
use h263_rs_deblock::deblock::verif_hooks::{process, process_simd};
use h263_rs_deblock::deblock::{deblock, QUANT_TO_STRENGTH};
use std::panic::{catch_unwind, AssertUnwindSafe};

/// `K a b c d s` -> `K <scalar result> | <vector lane results: "same" if all 8 lanes agree>`
pub fn kernel(a: &[&str]) -> String {
    let v: Vec<u8> = a.iter().map(|x| x.parse::<u8>().expect("u8")).collect();
    let (a0, b0, c0, d0, s) = (v[0], v[1], v[2], v[3], v[4]);
    let sc = catch_unwind(AssertUnwindSafe(|| {
        let (mut a, mut b, mut c, mut d) = (a0, b0, c0, d0);
        process(&mut a, &mut b, &mut c, &mut d, s);
        format!("{} {} {} {}", a, b, c, d)
    }))
    .unwrap_or_else(|_| "PANIC".to_string());
    let si = catch_unwind(AssertUnwindSafe(|| {
        // the pattern is placed in one lane at a time, the other lanes hold a different pattern
        let mut outs: Vec<String> = Vec::new();
        for lane in 0..8 {
            let mut va = [d0; 8];
            let mut vb = [c0; 8];
            let mut vc = [b0; 8];
            let mut vd = [a0; 8];
            va[lane] = a0;
            vb[lane] = b0;
            vc[lane] = c0;
            vd[lane] = d0;
            process_simd(&mut va, &mut vb, &mut vc, &mut vd, s);
            outs.push(format!("{} {} {} {}", va[lane], vb[lane], vc[lane], vd[lane]));
        }
        if outs.iter().all(|o| *o == outs[0]) {
            outs[0].clone()
        } else {
            format!("LANES-DIFFER {}", outs.join(" / "))
        }
    }))
    .unwrap_or_else(|_| "PANIC".to_string());
    format!("K {} | {}", sc, si)
}

/// `D w s hex` -> `D <hex of result>` or `D PANIC`
pub fn image(a: &[&str]) -> String {
    let w: usize = a[0].parse().expect("w");
    let s: u8 = a[1].parse().expect("s");
    let data = unhex(a[2]);
    let before = data.clone();
    match catch_unwind(AssertUnwindSafe(|| deblock(&data, w, s))) {
        Ok(r) => {
            if data != before {
                return "D INPUT-MODIFIED".to_string();
            }
            format!("D {}", hex(&r))
        }
        Err(_) => "D PANIC".to_string(),
    }
}

/// `J` -> the published table
pub fn table() -> String {
    let v: Vec<String> = QUANT_TO_STRENGTH.iter().map(|x| x.to_string()).collect();
    format!("J {}", v.join(" "))
}
